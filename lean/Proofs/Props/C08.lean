import Proofs.Lemmas.Server
import Proofs.Lemmas.ClientInv
import Proofs.Props.C10
import Proofs.Lemmas.IdAlloc
import Proofs.Lemmas.LockTable
/-!
  C08 — stream ids unique and increasing; one RPC, one handler invocation
  (server side: id validation and dispatch; the client's allocation is in
  `Proofs/Props/C08Alloc.lean`).
-/
namespace Proofs.C08
open TunnelModel TunnelModel.LFrame Proofs.Server

variable {α : Type}

/-- **Refusal of reused ids.** A `new_stream` whose id is not greater than all
    ids seen so far (or is active) ends the tunnel with an error and creates
    nothing. -/
theorem C08_refuse_reused (cfg : SCfg) (s : Srv α) (sid : Sid) (m : List Nat) (md : MD) (rev : Int) (win : Nat)
    (hret : s.returned = none) (hold : sid ≤ s.lastSeen ∨ sid ∈ s.table) :
    (s.onFrame cfg sid (.newStream m md rev win)).1.returned.isSome = true ∧
    ids (s.onFrame cfg sid (.newStream m md rev win)).1 = ids s := by
  simp only [Srv.onFrame, hret, Option.isSome_none, Bool.false_eq_true, if_false, Srv.createStream]
  by_cases h1 : s.table.contains sid = true
  · simp only [h1, if_true]
    exact ⟨by simp [Srv.serveReturns], (serveReturns_ids s _).1⟩
  · have h2 : sid ≤ s.lastSeen := by
      rcases hold with h | h
      · exact h
      · exact absurd (by simpa using h) h1
    simp only [h1, h2, if_true, Bool.false_eq_true, if_false]
    exact ⟨by simp [Srv.serveReturns], (serveReturns_ids s _).1⟩

/-- **Frames for ids never created end the tunnel.** -/
theorem C08_never_created (cfg : SCfg) (s : Srv α) (sid : Sid) (f : C2S α)
    (hret : s.returned = none) (hnew : ∀ m md rev win, f ≠ .newStream m md rev win)
    (hnt : s.getStream sid = none) (hfresh : ¬ sid ≤ s.lastSeen) :
    (s.onFrame cfg sid f).1.returned = some (some "never_created") := by
  cases f with
  | newStream m md rev win => exact absurd rfl (hnew m md rev win)
  | _ => simp [Srv.onFrame, hret, hnt, hfresh, Srv.serveReturns]

/-- **Frames for ids already finished with are ignored** (no state change, no
    output). -/
theorem C08_ignore_finished (cfg : SCfg) (s : Srv α) (sid : Sid) (f : C2S α)
    (hret : s.returned = none) (hnew : ∀ m md rev win, f ≠ .newStream m md rev win)
    (hnt : s.getStream sid = none) (hseen : sid ≤ s.lastSeen) :
    s.onFrame cfg sid f = (s, {}) :=
  Proofs.C10.C10_later_frames_ignored cfg s sid f hret hnew hnt hseen

/-- **Ids are accepted at most once and in strictly increasing order**, for
    every history of frames (any peer), handler calls, ticks and flag changes:
    the ids of all stream objects ever created are pairwise increasing in
    creation order, and none exceeds the high-water mark. -/
theorem C08_ids_increasing (cfg : SCfg) (xs : List (SStim α)) :
    (ids (Srv.run cfg ({} : Srv α) xs).1).Pairwise (· < ·) ∧
    ∀ i ∈ ids (Srv.run cfg ({} : Srv α) xs).1, i ≤ (Srv.run cfg ({} : Srv α) xs).1.lastSeen := by
  have := sinv_run cfg xs ({} : Srv α) sinv_init
  exact ⟨this.2, this.1⟩

/-- a stream object is created only for an id above the previous high-water mark -/
theorem C08_accept_fresh (cfg : SCfg) (s : Srv α) (sid : Sid) (m : List Nat) (md : MD) (rev : Int) (win : Nat)
    (h : ids (s.createStream cfg sid m md rev win).1 ≠ ids s) :
    s.lastSeen < sid ∧ ids (s.createStream cfg sid m md rev win).1 = ids s ++ [sid] := by
  rcases createStream_ids cfg s sid m md rev win with ⟨hi, _⟩ | ⟨hi, hlt, _⟩
  · exact absurd hi h
  · exact ⟨hlt, hi⟩

/-! ### dispatch: exactly the named handler -/

theorem splitAtSlash_spec : ∀ (n a b : Method.Name), Method.splitAtSlash n = some (a, b) →
    n = a ++ 47 :: b ∧ 47 ∉ a := by
  intro n
  induction n with
  | nil => intro a b h; simp [Method.splitAtSlash] at h
  | cons c cs ih =>
    intro a b h
    simp only [Method.splitAtSlash] at h
    by_cases hc : c = 47
    · simp [hc] at h; obtain ⟨h1, h2⟩ := h; subst h1 h2; simp [hc]
    · simp only [hc, if_false] at h
      cases hr : Method.splitAtSlash cs with
      | none => simp [hr] at h
      | some p =>
        obtain ⟨a', b'⟩ := p
        simp [hr] at h
        obtain ⟨h1, h2⟩ := h
        subst h1 h2
        obtain ⟨e, hn⟩ := ih a' b' hr
        refine ⟨by simp [e], ?_⟩
        intro hm
        rcases List.mem_cons.mp hm with h47 | h47
        · exact hc h47.symm
        · exact hn h47

theorem findIdx_spec {β} (p : β → Bool) : ∀ (l : List β) (i j : Nat) (x : β),
    Method.findIdx p l i = some (j, x) → p x = true ∧ i ≤ j ∧ l[j - i]? = some x := by
  intro l
  induction l with
  | nil => intro i j x h; simp [Method.findIdx] at h
  | cons y ys ih =>
    intro i j x h
    simp only [Method.findIdx] at h
    by_cases hp : p y = true
    · simp [hp] at h; obtain ⟨h1, h2⟩ := h; subst h1 h2; simp [hp]
    · simp only [hp, Bool.false_eq_true, if_false] at h
      obtain ⟨h1, h2, h3⟩ := ih (i + 1) j x h
      refine ⟨h1, by omega, ?_⟩
      have : j - i = (j - (i + 1)) + 1 := by omega
      rw [this]; simpa using h3

/-- **Dispatch.** If a method name resolves, the service was looked up under
    exactly the part before the first slash (after one optional leading
    slash), and the descriptor chosen is the one whose name is exactly the
    rest — a unary descriptor if one has that name, otherwise a stream
    descriptor with its own streaming flags.  Never another RPC's handler. -/
theorem C08_dispatch (services : List (Method.Name × Method.ServiceDesc)) (n svc : Method.Name) (f : Method.Found)
    (h : Method.resolve services n = .found svc f) :
    ∃ m sd, Method.stripSlash n = svc ++ 47 :: m ∧ 47 ∉ svc ∧ services.lookup svc = some sd ∧
      match f with
      | .unary i => sd.methods[i]? = some m
      | .stream i cs ss => sd.streams[i]? = some (m, cs, ss) ∧ m ∉ sd.methods := by
  unfold Method.resolve Method.splitMethod at h
  cases hs : Method.splitAtSlash (Method.stripSlash n) with
  | none => simp [hs] at h
  | some p =>
    obtain ⟨svc', m⟩ := p
    simp only [hs] at h
    cases hl : services.lookup svc' with
    | none => simp [hl] at h
    | some sd =>
      simp only [hl] at h
      cases hf : Method.findMethod sd m with
      | none => simp [hf] at h
      | some f' =>
        simp only [hf, Method.Resolve.found.injEq] at h
        obtain ⟨h1, h2⟩ := h
        subst h1 h2
        obtain ⟨e, hn⟩ := splitAtSlash_spec _ _ _ hs
        refine ⟨m, sd, e, hn, hl, ?_⟩
        unfold Method.findMethod at hf
        cases hu : Method.findIdx (fun n => n == m) sd.methods 0 with
        | some r =>
          obtain ⟨i, x⟩ := r
          simp only [hu, Option.some.injEq] at hf
          subst hf
          obtain ⟨hp, _, hg⟩ := findIdx_spec _ _ _ _ _ hu
          have : x = m := by simpa using hp
          subst this; simpa using hg
        | none =>
          simp only [hu] at hf
          cases hst : Method.findIdx (fun e => e.1 == m) sd.streams 0 with
          | none => simp [hst] at hf
          | some r =>
            obtain ⟨i, nm, cs, ss⟩ := r
            simp only [hst, Option.some.injEq] at hf
            subst hf
            obtain ⟨hp, _, hg⟩ := findIdx_spec _ _ _ _ _ hst
            have hnm : nm = m := by simpa using hp
            subst hnm
            refine ⟨by simpa using hg, ?_⟩
            intro hmem
            -- a unary descriptor with this name would have been found first
            have : ∀ (l : List Method.Name) (i : Nat), nm ∈ l → Method.findIdx (fun n => n == nm) l i ≠ none := by
              intro l
              induction l with
              | nil => intro i h; cases h
              | cons y ys ih =>
                intro i h
                simp only [Method.findIdx]
                by_cases hy : (y == nm) = true
                · simp [hy]
                · simp only [hy, Bool.false_eq_true, if_false]
                  rcases List.mem_cons.mp h with h | h
                  · subst h; simp at hy
                  · exact ih (i + 1) h
            exact this _ 0 hmem hu

/-! ### dispatch: completeness and error classification -/

theorem splitAtSlash_append (a b : Method.Name) (ha : 47 ∉ a) :
    Method.splitAtSlash (a ++ 47 :: b) = some (a, b) := by
  induction a with
  | nil => simp [Method.splitAtSlash]
  | cons c cs ih =>
    have hc : c ≠ 47 := fun h => ha (by simp [h])
    have hcs : 47 ∉ cs := fun h => ha (by simp [h])
    simp [Method.splitAtSlash, hc, ih hcs]

theorem splitAtSlash_none_iff (n : Method.Name) : Method.splitAtSlash n = none ↔ 47 ∉ n := by
  induction n with
  | nil => simp [Method.splitAtSlash]
  | cons c cs ih =>
    simp only [Method.splitAtSlash]
    by_cases hc : c = 47
    · simp [hc]
    · simp only [hc, if_false]
      cases hr : Method.splitAtSlash cs with
      | none =>
        have := ih.mp hr
        simp [this]; exact fun h => hc h.symm
      | some p =>
        have : 47 ∈ cs := by
          apply Classical.byContradiction; intro h; rw [ih.mpr h] at hr; cases hr
        simp [this]

theorem findIdx_complete {β} (p : β → Bool) : ∀ (l : List β) (i : Nat) (x : β), x ∈ l → p x = true →
    ∃ r, Method.findIdx p l i = some r := by
  intro l
  induction l with
  | nil => intro i x h; cases h
  | cons y ys ih =>
    intro i x h hp
    simp only [Method.findIdx]
    by_cases hy : p y = true
    · simp [hy]
    · simp only [hy, Bool.false_eq_true, if_false]
      rcases List.mem_cons.mp h with h | h
      · subst h; exact absurd hp hy
      · exact ih (i + 1) x h hp

/-- **A name is refused as malformed exactly when, after one optional leading
    slash, it contains no slash** (nothing else is ever `InvalidArgument`, and
    no such name reaches a handler). -/
theorem C08_malformed_iff (services : List (Method.Name × Method.ServiceDesc)) (n : Method.Name) :
    Method.resolve services n = .malformed ↔ 47 ∉ Method.stripSlash n := by
  unfold Method.resolve Method.splitMethod
  rw [← splitAtSlash_none_iff]
  cases hs : Method.splitAtSlash (Method.stripSlash n) with
  | none => simp
  | some p =>
    obtain ⟨svc, m⟩ := p
    simp only [reduceCtorEq, iff_false]
    cases services.lookup svc with
    | none => simp
    | some sd => cases hf : Method.findMethod sd m <;> simp [hf]

/-- **Dispatch is complete**: a method that a registered service declares
    (unary or streaming) is always found under its canonical name
    `/service/method` — never `Unimplemented`, never malformed — and by
    `C08_dispatch` what is found is that very descriptor. -/
theorem C08_registered_found (services : List (Method.Name × Method.ServiceDesc)) (svc m : Method.Name)
    (sd : Method.ServiceDesc) (hsvc : 47 ∉ svc) (hl : services.lookup svc = some sd)
    (hm : m ∈ sd.methods ∨ m ∈ sd.streams.map (·.1)) :
    ∃ f, Method.resolve services (47 :: (svc ++ 47 :: m)) = .found svc f := by
  unfold Method.resolve Method.splitMethod
  simp only [Method.stripSlash, splitAtSlash_append svc m hsvc, hl]
  unfold Method.findMethod
  cases hu : Method.findIdx (fun n => n == m) sd.methods 0 with
  | some r => exact ⟨_, rfl⟩
  | none =>
    rcases hm with hm | hm
    · obtain ⟨r, hr⟩ := findIdx_complete (fun n => n == m) sd.methods 0 m hm (by simp)
      rw [hr] at hu; cases hu
    · obtain ⟨e, he, hem⟩ := List.mem_map.mp hm
      obtain ⟨r, hr⟩ := findIdx_complete (fun e => e.1 == m) sd.streams 0 e he (by simp [hem])
      obtain ⟨i, nm, cs, ss⟩ := r
      simp only [hr]
      exact ⟨_, rfl⟩

/-- an unknown service, or a method the service does not declare, is
    `Unimplemented` (for a well-formed name) -/
theorem C08_unknown_unimplemented (services : List (Method.Name × Method.ServiceDesc)) (svc m : Method.Name)
    (hsvc : 47 ∉ svc)
    (h : services.lookup svc = none ∨
         ∃ sd, services.lookup svc = some sd ∧ m ∉ sd.methods ∧ m ∉ sd.streams.map (·.1)) :
    Method.resolve services (47 :: (svc ++ 47 :: m)) = .unimplemented := by
  unfold Method.resolve Method.splitMethod
  simp only [Method.stripSlash, splitAtSlash_append svc m hsvc]
  rcases h with h | ⟨sd, hl, hn1, hn2⟩
  · simp [h]
  · simp only [hl]
    cases hf : Method.findMethod sd m with
    | none => rfl
    | some f =>
      exfalso
      unfold Method.findMethod at hf
      cases hu : Method.findIdx (fun n => n == m) sd.methods 0 with
      | some r =>
        obtain ⟨i, x⟩ := r
        obtain ⟨hp, _, hg⟩ := findIdx_spec _ _ _ _ _ hu
        have hx : x = m := by simpa using hp
        exact hn1 (hx ▸ List.mem_of_getElem? hg)
      | none =>
        simp only [hu] at hf
        cases hst : Method.findIdx (fun e => e.1 == m) sd.streams 0 with
        | none => simp [hst] at hf
        | some r =>
          obtain ⟨i, e⟩ := r
          obtain ⟨hp, _, hg⟩ := findIdx_spec _ _ _ _ _ hst
          have hx : e.1 = m := by simpa using hp
          exact hn2 (List.mem_map.mpr ⟨e, List.mem_of_getElem? hg, hx⟩)

-- non-vacuity: service "s" (115) with unary "a" (97) and stream "b" (98)
example : Method.resolve [([115], ⟨[[97]], [([98], true, false)]⟩)] [47, 115, 47, 98] =
    .found [115] (.stream 0 true false) := by decide
example : Method.resolve [([115], ⟨[[97]], [([98], true, false)]⟩)] [47, 115, 47, 99] = .unimplemented := by decide
example : Method.resolve [([115], ⟨[[97]], []⟩)] [47, 115] = .malformed := by decide

/-! ### client side: allocation -/

/-- **Client ids are unique and strictly increasing** over every history of
    client stimuli (calls of any RPC, frames from any peer, ticks, closes), as
    long as the 63-bit counter has not been exhausted (`xs.length < 2^63 - 1`;
    after that the code refuses new streams: `IdRules.allocate`). -/
theorem C08_client_ids_increasing (cfg : CCfg) (xs : List (CStim α))
    (hlen : (xs.length : Int) < IdRules.maxInt64) :
    (Proofs.ClientInv.ids (Cli.run cfg (Cli.start cfg) xs).1).Pairwise (· < ·) ∧
    ∀ i ∈ Proofs.ClientInv.ids (Cli.run cfg (Cli.start cfg) xs).1,
      i ≤ (Cli.run cfg (Cli.start cfg) xs).1.lastStreamID :=
  Proofs.ClientInv.C08_client_ids_increasing cfg xs hlen

/-- **Each RPC begins with its new-stream frame**: a successful `newStream`
    takes the next id, its first emitted frame is the `new_stream` frame for
    that id (method, metadata, negotiated revision, advertised window), and
    everything it emits is tagged with that id. -/
theorem C08_client_new_stream_first (cfg : CCfg) (c : Cli α) (cs ss : Bool) (method : List Nat) (md : MD)
    (timeout : Option Nat) (cancelled : Bool) (sid : Sid)
    (h : (c.newStream cfg cs ss method md timeout cancelled).2.2 = some sid)
    (hlt : c.lastStreamID < IdRules.maxInt64) (h0 : 0 ≤ c.lastStreamID) :
    sid = c.lastStreamID + 1 ∧
    (c.newStream cfg cs ss method md timeout cancelled).2.1.frames.head? = some (sid, .newStream method md c.rev cfg.W) ∧
    (∀ f ∈ (c.newStream cfg cs ss method md timeout cancelled).2.1.frames, f.1 = sid) :=
  let r := Proofs.ClientInv.client_newStream_ok cfg c cs ss method md timeout cancelled sid h hlt h0
  ⟨r.1, r.2.1, r.2.2.1⟩

/-! ### the allocation counter at its limits (`IdRules.allocate`, the arithmetic
of `allocateStream`) -/

/-- below the limit the next id is the successor: positive and larger than the last -/
theorem C08_allocate_succ (l : Int) (h0 : 0 ≤ l) (hlt : l < IdRules.maxInt64) :
    IdRules.allocate l = some (l + 1) := by
  unfold IdRules.allocate IdRules.wrap64
  unfold IdRules.maxInt64 at *
  have h1 : ¬ l < 0 := by omega
  have h2 : ¬ l + 1 > 9223372036854775807 := by omega
  simp [h1, h2]

/-- once the counter is negative every further RPC is refused
    ("all stream IDs exhausted"): no id is ever handed out twice by wrapping on -/
theorem C08_allocate_exhausted (l : Int) (h : l < 0) : IdRules.allocate l = none := by
  simp [IdRules.allocate, h]

/-- the boundary as the code has it, stated and not hidden: the `2^63`-th RPC of
    one channel takes the wrapped id `-2^63` before the refusal sets in (the
    hypothesis `xs.length < 2^63 - 1` of `C08_client_ids_increasing` excludes
    exactly this point; it is distinct from every id used before, so ids are
    still never reused) -/
theorem C08_allocate_at_limit :
    IdRules.allocate IdRules.maxInt64 = some (-9223372036854775808) ∧
    IdRules.allocate (-9223372036854775808) = none := by decide

/-! ### concurrent callers (L-atomic model `TunnelModel/IdAlloc.lean`) -/

open TunnelModel.IdAlloc in
/-- **However many goroutines start RPCs concurrently, and however their steps
    interleave, the ids reach the wire in strictly increasing order** (hence
    distinct): `streamCreation` is held from before the id is taken until the
    `new_stream` frame has been handed to the carrier.  `n` goroutines, any
    schedule of lock / allocate (possibly failing after the increment) / send /
    unlock actions of any length. -/
theorem C08_concurrent_ids_increasing (n : Nat) (as : List Act) {s : St}
    (hr : run true (init n) as = some s) : s.wire.Pairwise (· < ·) ∧ s.wire.Nodup :=
  ⟨Proofs.IdAlloc.wire_increasing n as hr, Proofs.IdAlloc.wire_nodup n as hr⟩

open TunnelModel.IdAlloc in
/-- an id that has been allocated but not yet sent is larger than everything on the wire -/
theorem C08_allocated_is_fresh (n : Nat) (as : List Act) {s : St} (hr : run true (init n) as = some s)
    {g id : Nat} (hg : s.pcs[g]? = some (Pc.allocated id)) : ∀ x ∈ s.wire, x < id :=
  Proofs.IdAlloc.allocated_is_fresh n as hr hg

open TunnelModel.IdAlloc in
/-- **The lock is what makes it so**: with `streamCreation` not spanning
    allocation and send, two goroutines emit their frames out of order. -/
theorem C08_unguarded_out_of_order :
    (run false (init 2) [.lock 0, .alloc 0 true, .lock 1, .alloc 1 true, .send 1, .send 0]).map (·.wire) = some [2, 1] :=
  Proofs.IdAlloc.faulty_not_increasing

/-- **Code-level premise of the model** (regenerated from the sources on every
    run): in `newStream` the carrier `Send` of the `new_stream` frame is made
    holding `streamCreation`, and the only write of `lastStreamID` is made
    holding both `streamCreation` and `mu`; both rows exist. -/
theorem C08_allocation_and_send_under_streamCreation :
    Proofs.C15.idOrderViolations TunnelModel.Generated.accessTable = [] ∧
    (Proofs.C15.newStreamSends TunnelModel.Generated.accessTable).length = 1 ∧
    (Proofs.C15.idWrites TunnelModel.Generated.accessTable).length = 1 := by decide +kernel

-- non-vacuity: "/v.S/BD" dispatches to the stream descriptor named "BD", "v.S/U" to the unary one
example :
    Method.resolve [([118,46,83], { methods := [[85]], streams := [([66,68], true, true)] })] [47,118,46,83,47,66,68]
      = .found [118,46,83] (.stream 0 true true) := by decide

end Proofs.C08
