import Proofs.Props.C08
import Proofs.Props.C06
import Proofs.Lemmas.ServerBound
import Proofs.Lemmas.ClientInv
/-!
  C09 — no peer input can crash, wedge or bloat an endpoint (server endpoint
  here; client endpoint in `Proofs/Props/C09Client.lean`).

  The endpoint model is a total function of *every* frame a peer can send
  (all fields arbitrary: unset oneof, empty method, any id, any size, any
  window update) in *every* state, so each theorem below quantifies over all
  states and frames.  Go panics are not expressible in the model; that the code
  has none on these paths is what the correspondence harness (which recovers
  panics in the receive loop and reports them) checks on hostile conversations.
-/
namespace Proofs.C09
open TunnelModel TunnelModel.LFrame TunnelModel.Framing Proofs.Server

variable {α : Type}

/-! ### classification of tunnel-level violations (id rules): see C08 -/

/-- every tunnel-level outcome of a frame is one of the three documented ones -/
theorem C09_tunnel_errors_are_id_violations (cfg : SCfg) (s : Srv α) (sid : Sid) (f : C2S α)
    (hret : s.returned = none) (e : Option String) (h : (s.onFrame cfg sid f).1.returned = some e) :
    e = some "already_exists" ∨ e = some "already_used" ∨ e = some "never_created" := by
  cases f with
  | newStream m md rev win =>
    simp only [Srv.onFrame, hret, Option.isSome_none, Bool.false_eq_true, if_false, Srv.createStream] at h
    split at h
    · simp [Srv.serveReturns] at h; left; exact h.symm
    · split at h
      · simp [Srv.serveReturns] at h; right; left; exact h.symm
      · repeat' split at h
        all_goals simp_all
  | _ =>
    simp only [Srv.onFrame, hret, Option.isSome_none, Bool.false_eq_true, if_false] at h
    split at h
    · simp [Srv.setAny, hret] at h
    · split at h
      · simp [hret] at h
      · simp [Srv.serveReturns] at h; right; right; exact h.symm

/-! ### stream-level violations fail only that RPC -/

/-- a stream-level step never touches another stream's object or the
    tunnel-level state -/
theorem C09_stream_frame_local (cfg : SCfg) (s : Srv α) (sid : Sid) (f : C2S α) (st : SStream α)
    (hret : s.returned = none) (hnew : ∀ m md rev win, f ≠ .newStream m md rev win)
    (hst : s.getStream sid = some st) :
    (s.onFrame cfg sid f).1.returned = none ∧ (s.onFrame cfg sid f).1.lastSeen = s.lastSeen ∧
    (s.onFrame cfg sid f).1.closing = s.closing ∧
    (∀ e ∈ s.streams, e.1 ≠ sid → e ∈ (s.onFrame cfg sid f).1.streams) := by
  have key : ∀ (st' : SStream α), ∀ e ∈ s.streams, e.1 ≠ sid → e ∈ (s.setAny sid st').streams := by
    intro st' e he hne
    apply List.mem_map.mpr
    refine ⟨e, he, ?_⟩
    have : (e.1 == sid) = false := by simpa using hne
    simp [this]
  cases f with
  | newStream m md rev win => exact absurd rfl (hnew m md rev win)
  | msg size d => simp only [Srv.onFrame, hret, hst, Option.isSome_none, Bool.false_eq_true, if_false]; exact ⟨hret, rfl, rfl, key _⟩
  | more d => simp only [Srv.onFrame, hret, hst, Option.isSome_none, Bool.false_eq_true, if_false]; exact ⟨hret, rfl, rfl, key _⟩
  | halfClose => simp only [Srv.onFrame, hret, hst, Option.isSome_none, Bool.false_eq_true, if_false]; exact ⟨hret, rfl, rfl, key _⟩
  | cancel => simp only [Srv.onFrame, hret, hst, Option.isSome_none, Bool.false_eq_true, if_false]; exact ⟨hret, rfl, rfl, key _⟩
  | windowUpdate n => simp only [Srv.onFrame, hret, hst, Option.isSome_none, Bool.false_eq_true, if_false]; exact ⟨hret, rfl, rfl, key _⟩
  | unset => simp only [Srv.onFrame, hret, hst, Option.isSome_none, Bool.false_eq_true, if_false]; exact ⟨hret, rfl, rfl, key _⟩

/-- **Window overrun.** A data frame larger than the stream's remaining window
    is never queued; the stream is finished with ResourceExhausted. -/
theorem C09_overrun_fails_stream (cfg : SCfg) (sid : Sid) (s : SStream α) (size : Nat) (d : List α)
    (hfc : s.fc = true) (hc : s.rcv.closed = false) (hbig : d.length > s.rcv.rwin) :
    s.onFrame cfg sid (.msg size d) = s.finish sid (some errFlowControl) true := by
  simp [SStream.onFrame, hfc, RcvQ.accept, hc, DFrame.size, hbig]

theorem C09_overrun_fails_stream_more (cfg : SCfg) (sid : Sid) (s : SStream α) (d : List α)
    (hfc : s.fc = true) (hc : s.rcv.closed = false) (hbig : d.length > s.rcv.rwin) :
    s.onFrame cfg sid (.more d) = s.finish sid (some errFlowControl) true := by
  simp [SStream.onFrame, hfc, RcvQ.accept, hc, DFrame.size, hbig]

/-- what `finishStream` puts on the wire: for a stream that has not been closed
    yet, exactly one close frame with the status of the error (preceded by the
    headers frame if none was sent), and the stream leaves the table -/
theorem C09_finish_emits_close (sid : Sid) (s : SStream α) (err : Option SErr) (hcl : s.closed = false) :
    let r := s.finishCore sid err
    r.1.inTable = false ∧ r.1.closed = true ∧
    r.2.frames = (if s.sentHeaders then [] else [(sid, .headers s.headers)]) ++
                 [(sid, .close (SErr.wireStatus err) s.trailers)] := by
  simp only [SStream.finishCore, SStream.halfClose]
  split <;> simp [hcl]

/-- a finished stream is never closed twice -/
theorem C09_finish_once (sid : Sid) (s : SStream α) (err : Option SErr) (hcl : s.closed = true) :
    (s.finishCore sid err).2.frames = [] := by
  simp only [SStream.finishCore, SStream.halfClose]
  split <;> simp [hcl]

/-- an unset frame (unknown oneof) fails the stream with a protocol error -/
theorem C09_unset_fails_stream (cfg : SCfg) (sid : Sid) (s : SStream α) :
    s.onFrame cfg sid .unset = s.finish sid (some (.plain "protocol error: unrecognized frame type")) true := by
  simp [SStream.onFrame]

/-- absurd window updates cannot overflow the sender's window beyond uint32 -/
theorem C09_window_update_wraps (n w : Nat) : wrap32 (w + n) < 4294967296 := by
  unfold wrap32; omega

/-- a zero window update is ignored -/
theorem C09_zero_window_update (cfg : SCfg) (sid : Sid) (s : SStream α) :
    s.onFrame cfg sid (.windowUpdate 0) = (s, {}) := by
  simp [SStream.onFrame]

/-! ### after a tunnel-level error everything is released -/

theorem finishCore_fields (sid : Sid) (s : SStream α) (err : Option SErr) :
    (s.finishCore sid err).1.ctxDone = s.ctxDone ∧ (s.finishCore sid err).1.pread = s.pread ∧
    (s.finishCore sid err).1.psend = s.psend ∧ (s.finishCore sid err).1.hstatus = s.hstatus := by
  simp only [SStream.finishCore, SStream.halfClose]
  split <;> split <;> simp

theorem cancelCtx_released (sid : Sid) (s : SStream α) (e : CtxErr) :
    (s.cancelCtx sid e).1.ctxDone.isSome = true ∧
    (s.ctxDone = none → (s.cancelCtx sid e).1.pread = none ∧ (s.cancelCtx sid e).1.psend = none) := by
  unfold SStream.cancelCtx
  by_cases h : s.ctxDone.isSome = true
  · rw [if_pos h]
    refine ⟨h, fun hn => ?_⟩
    rw [hn] at h; cases h
  · rw [if_neg h]
    cases hps : s.psend with
    | none =>
      cases hpr : s.pread with
      | none => simp [hps, hpr]
      | some p =>
        by_cases hd : (s.hstatus == HStatus.decoding) = true
        · simp [hps, hpr, hd, finishCore_fields]
        · simp [hps, hpr, hd]
    | some snd =>
      by_cases hf : s.finishAfterSend = true
      · cases hpr : s.pread with
        | none => simp [hps, hpr, hf, finishCore_fields]
        | some p =>
          have hh : ∀ x : SStream α, x.hstatus = .returned →
              ((x.finishCore sid (some (.ctx e))).1.hstatus == HStatus.decoding) = false := by
            intro x hx; rw [(finishCore_fields sid x _).2.2.2, hx]; rfl
          simp [hps, hpr, hf, finishCore_fields, hh]
      · cases hpr : s.pread with
        | none => simp [hps, hpr, hf]
        | some p =>
          by_cases hd : (s.hstatus == HStatus.decoding) = true
          · simp [hps, hpr, hf, hd, finishCore_fields]
          · simp [hps, hpr, hf, hd]

/-- **Release.** When `serve` returns (tunnel-level error, carrier error or
    EOF) every stream context is cancelled. -/
theorem C09_released (s : Srv α) (err : Option String) :
    ∀ e ∈ (s.serveReturns err).1.streams, e.2.ctxDone.isSome = true := by
  have : ∀ (l : List (Sid × SStream α)), ∀ e ∈ (Srv.serveReturns.go l).1, e.2.ctxDone.isSome = true := by
    intro l
    induction l with
    | nil => intro e he; simp [Srv.serveReturns.go] at he
    | cons x rest ih =>
      obtain ⟨sid, st⟩ := x
      intro e he
      simp only [Srv.serveReturns.go] at he
      rcases List.mem_cons.mp he with h | h
      · subst h; exact (cancelCtx_released sid st .canceled).1
      · exact ih e h
  intro e he
  simp only [Srv.serveReturns] at he
  exact this _ e he

/-! ### bounded buffering -/

/-- **Bounded buffering.** For every history of stimuli of the server endpoint
    (arbitrary frames from any peer, handler calls, ticks, flag changes, carrier
    ends) every flow-controlled stream buffers at most its advertised window. -/
theorem C09_bounded (cfg : SCfg) (xs : List (SStim α)) :
    ∀ e ∈ (Srv.run cfg ({} : Srv α) xs).1.streams, e.2.fc = true →
      Proofs.ServerBound.queuedBytes e.2 ≤ cfg.W :=
  Proofs.ServerBound.C09_bounded cfg xs

/-- **The receive loop never wedges under flow control.** For every history, no
    flow-controlled stream ever puts the receive loop into the blocking hand-off
    that revision zero has (`unsupported` marks exactly that state). -/
theorem C09_loop_never_blocks_fc (cfg : SCfg) (xs : List (SStim α)) :
    ∀ e ∈ (Srv.run cfg ({} : Srv α) xs).1.streams, e.2.fc = true → e.2.unsupported = false :=
  Proofs.ServerBound.fc_never_unsupported cfg xs

/-! ### client endpoint -/

/-- **Bounded buffering, client endpoint**, for every stimulus history
    (arbitrary frames from any raw server included). -/
theorem C09_client_bounded (cfg : CCfg) (xs : List (CStim α)) :
    ∀ e ∈ (Cli.run cfg (Cli.start cfg) xs).1.streams, e.2.fc = true →
      Proofs.ClientInv.queuedBytes e.2 ≤ cfg.W :=
  Proofs.ClientInv.C09_client_bounded cfg xs

/-- **The client receive loop never wedges under flow control.** -/
theorem C09_client_loop_never_blocks_fc (cfg : CCfg) (xs : List (CStim α)) :
    ∀ e ∈ (Cli.run cfg (Cli.start cfg) xs).1.streams, e.2.fc = true → e.2.unsupported = false :=
  Proofs.ClientInv.client_fc_never_unsupported cfg xs

/-- **Frames for finished RPCs are discarded by the client without effect.** -/
theorem C09_client_late_frame_ignored (cfg : CCfg) (c : Cli α) (sid : Sid) (f : S2C α)
    (hfin : c.finished = none) (hph : c.phase = .running) (hnt : c.getStream sid = none)
    (hc : c.streamCreated = true) (hle : sid ≤ c.lastStreamID) : c.onFrame cfg sid f = (c, {}) :=
  Proofs.ClientInv.client_late_frame_ignored cfg c sid f hfin hph hnt hc hle

-- non-vacuity: an empty method name is answered by a stream-level refusal, not a crash
example :
    ((({} : Srv Nat).onFrame {} 0 (.newStream [] [] 1 65536)).2.frames.map (·.1)) = [0] ∧
    (({} : Srv Nat).onFrame {} 0 (.newStream [] [] 1 65536)).1.returned = none := by decide

end Proofs.C09
