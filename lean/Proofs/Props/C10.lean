import TunnelModel.LFrame.Server
import Proofs.Props.C15
import Proofs.Lemmas.Registry
/-!
  C10 — graceful shutdown refuses new RPCs and lets in-flight ones finish
  (tunnel-level part: the `closing` flag in `createStream`).  The lifecycle
  part (GracefulStop / Stop / Serve) is in `Proofs/Props/C10Lifecycle.lean`.
-/
namespace Proofs.C10
open TunnelModel.LFrame

variable {α : Type}

/-- **Refusal.** While the server is shutting down, a `new_stream` frame with a
    fresh id is answered by exactly one `close_stream` frame carrying
    Unavailable; no handler is started, the table is unchanged, the tunnel
    stays up, and the id is recorded (so later frames for it are ignored). -/
theorem C10_refused (cfg : SCfg) (s : Srv α) (sid : Sid) (m : List Nat) (md : MD) (rev : Int) (win : Nat)
    (hret : s.returned = none) (hcl : s.closing = true)
    (hfresh : ¬ sid ≤ s.lastSeen) (hnt : sid ∉ s.table) :
    s.onFrame cfg sid (.newStream m md rev win) =
      ({ s with lastSeen := sid },
       { frames := [(sid, .close (mkStatus codeUnavailable "server is shutting down") [])] }) := by
  simp [Srv.onFrame, hret, Srv.createStream, hnt, hfresh, hcl, rejectFrame]

/-- the refused id is now "seen": the table is unchanged and `lastSeen = sid` -/
theorem C10_refused_state (cfg : SCfg) (s : Srv α) (sid : Sid) (m : List Nat) (md : MD) (rev : Int) (win : Nat)
    (hret : s.returned = none) (hcl : s.closing = true)
    (hfresh : ¬ sid ≤ s.lastSeen) (hnt : sid ∉ s.table) :
    let s' := (s.onFrame cfg sid (.newStream m md rev win)).1
    s'.returned = none ∧ s'.streams = s.streams ∧ s'.lastSeen = sid := by
  simp [C10_refused cfg s sid m md rev win hret hcl hfresh hnt, hret]

/-- **Later frames of a refused RPC are ignored** (and, generally, frames for
    any id that is not in the table and not above the high-water mark): state
    unchanged, nothing emitted.  This is what keeps the tunnel alive for the
    in-flight RPCs. -/
theorem C10_later_frames_ignored (cfg : SCfg) (s : Srv α) (sid : Sid) (f : C2S α)
    (hret : s.returned = none) (hnew : ∀ m md rev win, f ≠ .newStream m md rev win)
    (hnt : s.getStream sid = none) (hseen : sid ≤ s.lastSeen) :
    s.onFrame cfg sid f = (s, {}) := by
  cases f with
  | newStream m md rev win => exact absurd rfl (hnew m md rev win)
  | _ => simp_all [Srv.onFrame]

/-- **In-flight RPCs do not see the flag.** Every stimulus other than a
    `new_stream` frame produces the same outputs and the same state whatever
    the value of the shutdown flag. -/
theorem C10_flag_only_read_by_new_stream (cfg : SCfg) (s : Srv α) (x : SStim α) (b : Bool)
    (hnew : ∀ sid m md rev win, x ≠ .frame sid (.newStream m md rev win))
    (hcl : ∀ b', x ≠ .closing b') :
    let r := s.step cfg x
    let r' := ({ s with closing := b } : Srv α).step cfg x
    r'.2 = r.2 ∧ r'.1 = { r.1 with closing := b } := by
  cases x with
  | frame sid f =>
    cases f with
    | newStream m md rev win => exact absurd rfl (hnew sid m md rev win)
    | _ =>
      simp only [Srv.step, Srv.onFrame, Srv.getStream]
      split
      · simp
      · split <;> simp [Srv.setAny, Srv.serveReturns]
        split <;> simp
  | call sid c =>
    simp only [Srv.step, Srv.onCall, Srv.getAny]
    split <;> simp [Srv.setAny]
  | tick d => simp [Srv.step, Srv.tick]
  | closing b' => exact absurd rfl (hcl b')
  | carrierEnds err =>
    simp only [Srv.step]
    split <;> simp [Srv.serveReturns]

-- non-vacuity: a fresh server in shutdown refuses stream 0
example : ((({ closing := true } : Srv Nat).onFrame {} 0 (.newStream [] [] 1 65536)).2.frames).length = 1 := by
  decide

/-! ### the reverse-tunnel server's state machine (reverse_server.go: Serve / GracefulStop / Stop)

The lifecycle world compares `state` and the number of registered instances of
the real `ReverseTunnelServer` with this model after every API event. -/

open TunnelModel.Lifecycle Proofs.Registry in
/-- **Shutdown only moves forward** (active → closing → closed), over every
    sequence of Serve / Serve-returned / Stop / GracefulStop events. -/
theorem C10_shutdown_monotone (ops : List SOp) (s : RServer) :
    s.state.rank ≤ (ops.foldl stepSrv s).state.rank :=
  C10_rank_mono ops s

open TunnelModel.Lifecycle Proofs.Registry in
/-- **Once shutdown was initiated every later `Serve` is refused**, whatever
    happens in between, and changes nothing. -/
theorem C10_serve_refused_after_shutdown (ops : List SOp) (s : RServer) (h : s.state ≠ .active)
    (t : Nat) : ((ops.foldl stepSrv s).serve t).2 = false
      ∧ ((ops.foldl stepSrv s).serve t).1 = ops.foldl stepSrv s :=
  C10_serve_refused_forever ops s h t

open TunnelModel.Lifecycle Proofs.Registry in
/-- **`Stop` after `GracefulStop` still stops**: the server ends up closed (its
    tunnels are then torn down), exactly as a `Stop` alone; a `GracefulStop`
    after `Stop` changes nothing. -/
theorem C10_stop_after_gracefulStop (s : RServer) :
    s.gracefulStop.stop = s.stop ∧ s.gracefulStop.stop.state = .closed ∧ s.stop.gracefulStop = s.stop :=
  ⟨stop_after_gracefulStop s, by rw [stop_after_gracefulStop]; rfl, gracefulStop_after_stop s⟩

open TunnelModel.Lifecycle Proofs.Registry in
/-- both stops make `isClosing` true, and it stays true -/
theorem C10_isClosing_after_stop (ops : List SOp) (s : RServer) :
    (ops.foldl stepSrv s.gracefulStop).isClosing = true ∧ (ops.foldl stepSrv s.stop).isClosing = true :=
  ⟨C10_isClosing_sticky ops _ (isClosing_gracefulStop s), C10_isClosing_sticky ops _ (isClosing_stop s)⟩

/-- code-level premise (regenerated from the sources on every run): `Stop` and
    `GracefulStop` do not hold the server's mutex while they wait for the
    `Serve` calls to return, so the tunnels can go on asking `isClosing()` —
    refusing new RPCs and letting in-flight ones finish — during the drain -/
theorem C10_waits_hold_no_lock :
    Proofs.C15.lockedWaitViolations TunnelModel.Generated.accessTable = [] :=
  Proofs.C15.C15_waits_hold_no_lock

end Proofs.C10
