import TunnelModel.LFrame.Server
import Proofs.Props.C15
import Proofs.Lemmas.Registry
import Proofs.Lemmas.LifeAtomic
/-!
  C10 — graceful shutdown refuses new RPCs and lets in-flight ones finish
  (tunnel-level part: the `closing` flag in `createStream`).  The lifecycle
  part (GracefulStop / Stop / Serve) is in `Proofs/Props/C10Lifecycle.lean`.
-/
namespace Proofs.C10
open TunnelModel.LFrame

variable {α : Type}

/-- **Refusal.** While the server is shutting down, a `new_stream` frame with a
    fresh id is answered by exactly one `close_stream` frame carrying
    Unavailable; no handler is started, the table is unchanged, the tunnel
    stays up, and the id is recorded (so later frames for it are ignored). -/
theorem C10_refused (cfg : SCfg) (s : Srv α) (sid : Sid) (m : List Nat) (md : MD) (rev : Int) (win : Nat)
    (hret : s.returned = none) (hcl : s.closing = true)
    (hfresh : ¬ sid ≤ s.lastSeen) (hnt : sid ∉ s.table) :
    s.onFrame cfg sid (.newStream m md rev win) =
      ({ s with lastSeen := sid },
       { frames := [(sid, .close (mkStatus codeUnavailable "server is shutting down") [])] }) := by
  simp [Srv.onFrame, hret, Srv.createStream, hnt, hfresh, hcl, rejectFrame]

/-- the refused id is now "seen": the table is unchanged and `lastSeen = sid` -/
theorem C10_refused_state (cfg : SCfg) (s : Srv α) (sid : Sid) (m : List Nat) (md : MD) (rev : Int) (win : Nat)
    (hret : s.returned = none) (hcl : s.closing = true)
    (hfresh : ¬ sid ≤ s.lastSeen) (hnt : sid ∉ s.table) :
    let s' := (s.onFrame cfg sid (.newStream m md rev win)).1
    s'.returned = none ∧ s'.streams = s.streams ∧ s'.lastSeen = sid := by
  simp [C10_refused cfg s sid m md rev win hret hcl hfresh hnt, hret]

/-- **Later frames of a refused RPC are ignored** (and, generally, frames for
    any id that is not in the table and not above the high-water mark): state
    unchanged, nothing emitted.  This is what keeps the tunnel alive for the
    in-flight RPCs. -/
theorem C10_later_frames_ignored (cfg : SCfg) (s : Srv α) (sid : Sid) (f : C2S α)
    (hret : s.returned = none) (hnew : ∀ m md rev win, f ≠ .newStream m md rev win)
    (hnt : s.getStream sid = none) (hseen : sid ≤ s.lastSeen) :
    s.onFrame cfg sid f = (s, {}) := by
  cases f with
  | newStream m md rev win => exact absurd rfl (hnew m md rev win)
  | _ => simp_all [Srv.onFrame]

/-- **In-flight RPCs do not see the flag.** Every stimulus other than a
    `new_stream` frame produces the same outputs and the same state whatever
    the value of the shutdown flag. -/
theorem C10_flag_only_read_by_new_stream (cfg : SCfg) (s : Srv α) (x : SStim α) (b : Bool)
    (hnew : ∀ sid m md rev win, x ≠ .frame sid (.newStream m md rev win))
    (hcl : ∀ b', x ≠ .closing b') :
    let r := s.step cfg x
    let r' := ({ s with closing := b } : Srv α).step cfg x
    r'.2 = r.2 ∧ r'.1 = { r.1 with closing := b } := by
  cases x with
  | frame sid f =>
    cases f with
    | newStream m md rev win => exact absurd rfl (hnew sid m md rev win)
    | _ =>
      simp only [Srv.step, Srv.onFrame, Srv.getStream]
      split
      · simp
      · split <;> simp [Srv.setAny, Srv.serveReturns]
        split <;> simp
  | call sid c =>
    simp only [Srv.step, Srv.onCall, Srv.getAny]
    split <;> simp [Srv.setAny]
  | tick d => simp [Srv.step, Srv.tick]
  | closing b' => exact absurd rfl (hcl b')
  | carrierEnds err =>
    simp only [Srv.step]
    split <;> simp [Srv.serveReturns]

-- non-vacuity: a fresh server in shutdown refuses stream 0
example : ((({ closing := true } : Srv Nat).onFrame {} 0 (.newStream [] [] 1 65536)).2.frames).length = 1 := by
  decide

/-! ### the reverse-tunnel server's state machine (reverse_server.go: Serve / GracefulStop / Stop)

The lifecycle world compares `state` and the number of registered instances of
the real `ReverseTunnelServer` with this model after every API event. -/

open TunnelModel.Lifecycle Proofs.Registry in
/-- **Shutdown only moves forward** (active → closing → closed), over every
    sequence of Serve / Serve-returned / Stop / GracefulStop events. -/
theorem C10_shutdown_monotone (ops : List SOp) (s : RServer) :
    s.state.rank ≤ (ops.foldl stepSrv s).state.rank :=
  C10_rank_mono ops s

open TunnelModel.Lifecycle Proofs.Registry in
/-- **Once shutdown was initiated every later `Serve` is refused**, whatever
    happens in between, and changes nothing. -/
theorem C10_serve_refused_after_shutdown (ops : List SOp) (s : RServer) (h : s.state ≠ .active)
    (t : Nat) : ((ops.foldl stepSrv s).serve t).2 = false
      ∧ ((ops.foldl stepSrv s).serve t).1 = ops.foldl stepSrv s :=
  C10_serve_refused_forever ops s h t

open TunnelModel.Lifecycle Proofs.Registry in
/-- **`Stop` after `GracefulStop` still stops**: the server ends up closed (its
    tunnels are then torn down), exactly as a `Stop` alone; a `GracefulStop`
    after `Stop` changes nothing. -/
theorem C10_stop_after_gracefulStop (s : RServer) :
    s.gracefulStop.stop = s.stop ∧ s.gracefulStop.stop.state = .closed ∧ s.stop.gracefulStop = s.stop :=
  ⟨stop_after_gracefulStop s, by rw [stop_after_gracefulStop]; rfl, gracefulStop_after_stop s⟩

open TunnelModel.Lifecycle Proofs.Registry in
/-- both stops make `isClosing` true, and it stays true -/
theorem C10_isClosing_after_stop (ops : List SOp) (s : RServer) :
    (ops.foldl stepSrv s.gracefulStop).isClosing = true ∧ (ops.foldl stepSrv s.stop).isClosing = true :=
  ⟨C10_isClosing_sticky ops _ (isClosing_gracefulStop s), C10_isClosing_sticky ops _ (isClosing_stop s)⟩

/-- code-level premise (regenerated from the sources on every run): `Stop` and
    `GracefulStop` do not hold the server's mutex while they wait for the
    `Serve` calls to return, so the tunnels can go on asking `isClosing()` —
    refusing new RPCs and letting in-flight ones finish — during the drain -/
theorem C10_waits_hold_no_lock :
    Proofs.C15.lockedWaitViolations TunnelModel.Generated.accessTable = [] :=
  Proofs.C15.C15_waits_hold_no_lock

/-! ### Serve / Stop / GracefulStop below the API: every interleaving of their critical sections
     (L-atomic model `TunnelModel/LifeAtomic.lean`; any number of concurrent Serve, Stop and GracefulStop calls) -/

open TunnelModel.LifeAtomic Proofs.LifeAtomic in
/-- **Stop returns only after every Serve call has returned** — and none can be
    admitted afterwards: in every reachable state in which some `Stop` has
    returned, no `Serve` call is running, and none is in any continuation. -/
theorem C10_stop_returns_only_after_serves (n a b : Nat) (as : List Act) {s : St}
    (hr : run true false (init n a b) as = some s) {j : Nat} (hj : s.stops[j]? = some .returned) :
    (∀ (i : Nat) (x : Serve), s.serves[i]? = some x →
        x.pc = .start ∨ x.pc = .opened ∨ x.pc = .failedOpen ∨ x.pc = .refused ∨ x.pc = .returned) ∧
    (∀ (as' : List Act) (s' : St), run true false s as' = some s' →
        ∀ (i : Nat) (x : Serve), s'.serves[i]? = some x → x.pc ≠ .serving ∧ x.pc ≠ .ended) :=
  stop_returns_only_after_serves n a b as hr hj

open TunnelModel.LifeAtomic Proofs.LifeAtomic in
/-- **No admission after shutdown began**: once the state has left `active` a
    `Serve` call that is not yet serving never will be. -/
theorem C10_no_admission_after_shutdown (n a b : Nat) (as : List Act) {s : St}
    (hr : run true false (init n a b) as = some s) (hshut : s.state ≠ .active)
    {i : Nat} {x : Serve} (hi : s.serves[i]? = some x) (hx : x.pc ≠ .serving)
    (as' : List Act) {s' : St} (hr' : run true false s as' = some s') :
    ∀ y, s'.serves[i]? = some y → y.pc ≠ .serving :=
  no_admission_after_shutdown' n a b as hr hshut hi hx as' hr'

open TunnelModel.LifeAtomic Proofs.LifeAtomic in
/-- **Stop cannot hang by itself**: after its critical section every running
    `Serve` call has its own next step enabled without any help from the peer
    (the instance was hung up), and every schedule is finite. -/
theorem C10_stop_ends_every_tunnel (n a b : Nat) (as : List Act) {s : St}
    (hr : run true false (init n a b) as = some s) {j : Nat} (hj : Passed s.stops j)
    {i : Nat} {x : Serve} (hi : s.serves[i]? = some x) (hrun : x.pc.running = true) :
    ((x.pc = .serving ∧ (step true false s (.tunnelEnds i)).isSome) ∨
     (x.pc = .ended ∧ (step true false s (.wgDone i)).isSome)) ∧
    as.length ≤ 6 * n + 2 * a + 2 * b :=
  ⟨stop_ends_every_tunnel n a b as hr hj hi hrun, by have := schedule_bounded n a b as hr; omega⟩

open TunnelModel.LifeAtomic Proofs.LifeAtomic in
/-- **GracefulStop waits for the PEER** (the open finding D9, as a theorem about
    the model that follows the code): with a tunnel up whose peer does not hang
    up and no `Stop`, a waiting `GracefulStop` stays waiting whatever else
    happens — there is nothing in the protocol that tells the peer to go away. -/
theorem C10_gracefulStop_blocked_until_peer_or_stop_partial (n a b : Nat) (as : List Act) {s : St}
    (hr : run true false (init n a b) as = some s) {k i : Nat}
    (hst : s.state = .closing) (hk : s.gstops[k]? = some .waiting)
    (hi : s.serves[i]? = some ⟨.serving, false⟩) :
    ∀ (as' : List Act) (s' : St), run true false s as' = some s' →
      (∀ act ∈ as', act ≠ .peerHangup i ∧ ∀ j, act ≠ .stopCS j) →
      s'.state = .closing ∧ s'.gstops[k]? = some .waiting ∧ s'.serves[i]? = some ⟨.serving, false⟩ ∧
      step true false s' (.gsWait k) = none ∧ step true false s' (.tunnelEnds i) = none :=
  gracefulStop_blocked_until_peer_or_stop n a b as hr hst hk hi

open TunnelModel.LifeAtomic Proofs.LifeAtomic in
/-- **Why the state check and the registration are one critical section** (the
    seeded change C15-unlocked-state-check-in-addinstance): with the check made
    before taking the lock, a `Serve` call is admitted after `Stop` has
    returned, and nothing but the peer will ever end it. -/
theorem C10_unlocked_check_admits_after_stop :
    (run false false (init 1 1 0) [.openTunnel 0 true, .check 0, .stopCS 0, .stopWait 0, .add 0]).map
        (obs false false) =
      some { state := .closed, wg := 1, hungUp := [], serves := [⟨.serving, false⟩],
             stops := [.returned], gstops := [], enabled := [.peerHangup 0] } :=
  faulty_unlocked_check_admits_after_stop

open TunnelModel.LifeAtomic Proofs.LifeAtomic in
/-- **Why Stop's guard is `state = closed`** (the seeded changes
    C10-stop-noop-after-gracefulstop / C04-stop-guard-copied-from-gracefulstop):
    with the guard `state ≠ active`, `Stop` after `GracefulStop` hangs nothing
    up and both wait for the peer for ever. -/
theorem C10_stop_guard_not_active_hangs :
    (run true true (init 1 1 1) [.openTunnel 0 true, .enroll 0, .gsCS 0, .stopCS 0]).map (obs true true) =
      some { state := .closing, wg := 1, hungUp := [], serves := [⟨.serving, false⟩],
             stops := [.waiting], gstops := [.waiting], enabled := [.peerHangup 0] } :=
  faulty_stop_guard_hangs

end Proofs.C10
