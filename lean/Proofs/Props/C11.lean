import TunnelModel.Negotiate
/-! C11 — protocol revision negotiation (pure part). -/
namespace Proofs.C11
open TunnelModel.Negotiate

/-- loop invariant: after scanning `srv` the state is (max of start and the
    common elements, or-ed flag) -/
theorem selectLoop_eq (client : List Int) (srv : List Int) (u : Int) (b : Bool) :
    selectLoop client srv (u, b) =
      ((srv.filter (fun r => client.contains r)).foldl max u,
       b || (srv.filter (fun r => client.contains r)) != []) := by
  induction srv generalizing u b with
  | nil => simp [selectLoop]
  | cons r rs ih =>
    unfold selectLoop
    by_cases h : r ∈ client
    · have : (if r > u then r else u) = max u r := by
        by_cases hr : r > u
        · simp [hr]; omega
        · simp [hr]; omega
      simp [h, ih, this]
    · simp [h, ih]

theorem foldl_max_ge (l : List Int) (a : Int) : a ≤ l.foldl max a := by
  induction l generalizing a with
  | nil => simp
  | cons x xs ih => simp only [List.foldl_cons]; have := ih (max a x); omega

/-- **C11 (selection).** The revision the client chooses is the highest one
    both ends support; an empty list is revision zero; no common revision is an
    error.  Hypothesis: the client's own revisions are non-negative, as
    `supportedRevisions` always returns. -/
theorem C11_select_eq_spec (client server : List Int) (hc : ∀ r ∈ client, 0 ≤ r) :
    select client server = spec client server := by
  unfold select spec common
  generalize (if server.isEmpty then [0] else server) = srv
  simp only [selectLoop_eq, Bool.false_or]
  cases hf : srv.filter (fun r => client.contains r) with
  | nil => simp
  | cons r rs =>
    simp only [List.foldl_cons, bne_iff_ne, ne_eq, reduceCtorEq, not_false_eq_true, if_true,
      decide_true]
    have hr : r ∈ srv.filter (fun r => client.contains r) := by rw [hf]; simp
    have : 0 ≤ r := hc r (by simpa using (List.mem_filter.mp hr).2)
    have : max 0 r = r := by omega
    simp [this]

/-- the chosen revision is supported by both ends and no common one is higher -/
theorem C11_select_sound (client server : List Int) (hc : ∀ r ∈ client, 0 ≤ r) (rev : Int)
    (h : select client server = some rev) :
    rev ∈ client ∧ rev ∈ (if server.isEmpty then [0] else server) ∧
    ∀ r ∈ client, r ∈ (if server.isEmpty then [0] else server) → r ≤ rev := by
  rw [C11_select_eq_spec client server hc] at h
  unfold spec common at h
  generalize (if server.isEmpty then [0] else server) = srv at *
  cases hf : srv.filter (fun r => client.contains r) with
  | nil => rw [hf] at h; simp at h
  | cons r rs =>
    rw [hf] at h
    simp only [Option.some.injEq] at h
    have key : ∀ (l : List Int) (a : Int), (l.foldl max a = a ∨ l.foldl max a ∈ l) ∧
        ∀ x ∈ l, x ≤ l.foldl max a := by
      intro l
      induction l with
      | nil => intro a; simp
      | cons x xs ih =>
        intro a
        simp only [List.foldl_cons, List.mem_cons]
        obtain ⟨h1, h2⟩ := ih (max a x)
        have hge := foldl_max_ge xs (max a x)
        constructor
        · rcases h1 with h1 | h1
          · by_cases hax : a ≤ x
            · right; left; rw [h1]; omega
            · left; rw [h1]; omega
          · right; right; exact h1
        · intro y hy
          rcases hy with rfl | hy
          · omega
          · exact h2 y hy
    obtain ⟨h1, h2⟩ := key rs r
    have hmem : rev ∈ r :: rs := by
      rw [← h]; rcases h1 with h1 | h1
      · rw [h1]; simp
      · exact List.mem_cons_of_mem _ h1
    rw [← hf] at hmem
    obtain ⟨hm1, hm2⟩ := List.mem_filter.mp hmem
    refine ⟨by simpa using hm2, hm1, ?_⟩
    intro x hxc hxs
    have : x ∈ r :: rs := by rw [← hf]; exact List.mem_filter.mpr ⟨hxs, by simpa using hxc⟩
    rw [← h]
    rcases List.mem_cons.mp this with rfl | hx
    · exact foldl_max_ge rs x
    · exact h2 x hx

/-- **No common revision ⇔ error.** The selection fails exactly when no
    revision is in both lists (an empty server list standing for `[0]`): it never
    fails while a common revision exists and never proceeds without one. -/
theorem C11_select_none_iff (client server : List Int) (hc : ∀ r ∈ client, 0 ≤ r) :
    select client server = none ↔
      ∀ r ∈ client, r ∉ (if server.isEmpty then [0] else server) := by
  rw [C11_select_eq_spec client server hc]
  unfold spec common
  generalize (if server.isEmpty then [0] else server) = srv
  cases hf : srv.filter (fun r => client.contains r) with
  | nil =>
    simp only [true_iff]
    intro r hr hs
    have : r ∈ srv.filter (fun r => client.contains r) := List.mem_filter.mpr ⟨hs, by simpa using hr⟩
    rw [hf] at this; cases this
  | cons r rs =>
    simp only [reduceCtorEq, false_iff]
    have hr : r ∈ srv.filter (fun r => client.contains r) := by rw [hf]; simp
    obtain ⟨h1, h2⟩ := List.mem_filter.mp hr
    intro hall
    exact hall r (by simpa using h2) h1

/-- `supportedRevisions` honours the option and is non-negative -/
theorem supportedRevisions_nonneg (d : Bool) : ∀ r ∈ supportedRevisions d, 0 ≤ r := by
  cases d <;> simp [supportedRevisions]

/-- **C11 (iff).** Over all 3×3 configurations: flow control (revision 1) is
    used exactly when both ends advertise and neither disabled it; otherwise
    revision 0 is used; negotiation never fails between these peers. -/
theorem C11_iff (c s : Peer) :
    revisionUsed c s = some (if c = .enabled ∧ s = .enabled then 1 else 0) := by
  cases c <;> cases s <;> decide

/-- settings are exchanged exactly when both ends advertise negotiation -/
theorem C11_settings_iff (c s : Peer) :
    settingsSent c s = (c.advertises && s.advertises) ∧
    settingsAwaited c s = (c.advertises && s.advertises) := by
  cases c <;> cases s <;> exact ⟨rfl, rfl⟩

/-- a settings frame listing no revisions is treated as revision zero -/
theorem C11_empty_is_zero (d : Bool) : select (supportedRevisions d) [] = some 0 := by
  cases d <;> decide

/-- unknown and duplicate revisions are harmless -/
example : select (supportedRevisions false) [7, 1, 1, 0, 7] = some 1 := by decide
example : select (supportedRevisions true) [7, 1, 1, 0, 7] = some 0 := by decide
/-- no common revision ⇒ error -/
example : select (supportedRevisions false) [2, 7] = none := by decide

end Proofs.C11
