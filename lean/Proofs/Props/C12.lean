import Proofs.Lemmas.Registry
import Proofs.Lemmas.Waiters
import Proofs.Lemmas.RegAtomic
/-!
  C12 — the reverse-tunnel registry always matches the set of open reverse
  tunnels.  API-granular model (`TunnelModel/Lifecycle.lean`,
  `TunnelModel/RoundRobin.lean`); the specification state is the list `os` of
  open tunnels with their affinity keys in opening order.
-/
namespace Proofs.C12
open TunnelModel.RoundRobin TunnelModel.Lifecycle Proofs.Registry

/-- **Exactness.** After every history of opens (fresh tunnel ids), closes
    (of open or unknown tunnels), and routed picks, the registry represents
    exactly the open set: global list = open tunnels in order, each key's pool =
    the open tunnels with that key, every readiness latch closed iff its pool
    is non-empty. -/
theorem C12_exact (ops : List ROp) (hl : legal ops) : RInv (runReg ops) (runSpec ops) :=
  Proofs.Registry.C12_exact ops hl

/-- AllReverseTunnels is exactly the open set, in opening order -/
theorem C12_all (r : Registry) (os : OpenSet) (h : RInv r os) : r.all = os.map (·.1) := h.all_eq

/-- **Routing.** An RPC is only ever routed to an open tunnel, and through
    `KeyAsChannel k` only to one whose affinity key is `k`; it is refused
    (no tunnel) exactly when there is none. -/
theorem C12_routed_open (r : Registry) (os : OpenSet) (h : RInv r os) (t : Nat)
    (hp : r.pickAll.2 = some t) : t ∈ os.map (·.1) := h.pickAll_sound hp

theorem C12_routed_right_key (r : Registry) (os : OpenSet) (h : RInv r os) (k t : Nat)
    (hp : (r.pickKey k).2 = some t) : (t, k) ∈ os := h.pickKey_sound hp

theorem C12_unavailable_iff (r : Registry) (os : OpenSet) (h : RInv r os) (k : Nat) :
    (r.pickAll.2 = none ↔ os = []) ∧ ((r.pickKey k).2 = none ↔ os.filter (·.2 = k) = []) :=
  ⟨h.pickAll_none_iff, h.pickKey_none_iff k⟩

/-- **Ready / WaitForReady reflect whether the set is non-empty.** -/
theorem C12_ready (r : Registry) (os : OpenSet) (h : RInv r os) (k : Nat) :
    (r.readyAll = true ↔ os ≠ []) ∧ (r.readyKey k = true ↔ os.filter (·.2 = k) ≠ []) ∧
    (r.waitBlocksAll = true ↔ os = []) ∧ (r.waitBlocksKey k = true ↔ os.filter (·.2 = k) = []) :=
  ⟨h.readyAll_iff, h.readyKey_iff k, h.waitBlocksAll_iff, h.waitBlocksKey_iff k⟩

/-- **Round robin.** With a stable set of `n` tunnels, any `n` consecutive
    RPCs through one pooled channel use each tunnel exactly once — for EVERY
    value of the cursor (cursors beyond the end occur after removals). -/
theorem C12_round_robin (p : Pool) (hn : 0 < p.chans.length) :
    ((p.picks p.chans.length).2).Perm (p.chans.map (fun e => some e.1)) :=
  round_robin_perm p hn

/-- **No tunnel starves**: every registered tunnel is used within any `n`
    consecutive RPCs, whatever the cursor. -/
theorem C12_no_starvation (p : Pool) (hn : 0 < p.chans.length) (e : Nat × Nat) (he : e ∈ p.chans) :
    some e.1 ∈ (p.picks p.chans.length).2 :=
  (C12_round_robin p hn).mem_iff.mpr (List.mem_map.mpr ⟨e, he, rfl⟩)

/-- **No tunnel is used twice in a round**: with distinct tunnels, `n`
    consecutive picks are pairwise different. -/
theorem C12_no_repeat_in_round (p : Pool) (hn : 0 < p.chans.length)
    (hd : (p.chans.map (·.1)).Nodup) : ((p.picks p.chans.length).2).Nodup := by
  refine (C12_round_robin p hn).nodup_iff.mpr ?_
  have : p.chans.map (fun e => some e.1) = (p.chans.map (·.1)).map some := by simp
  rw [this]
  exact List.Pairwise.map some (fun _ _ h hs => h (Option.some.inj hs)) hd

/-- a pick never returns anything but a registered tunnel, and returns nothing
    only when there is none -/
theorem C12_pick_registered (p : Pool) (t : Nat) (h : p.pick.2 = some t) : t ∈ p.all := by
  obtain ⟨e, he, ht⟩ := pick_some_mem p t h
  exact List.mem_map.mpr ⟨e, he, ht⟩

theorem C12_round_robin_key (r : Registry) (os : OpenSet) (h : RInv r os) (k : Nat)
    (hn : 0 < (os.filter (·.2 = k)).length) :
    ((picksKey r k (os.filter (·.2 = k)).length).2).Perm ((os.filter (·.2 = k)).map (fun e => some e.1)) :=
  round_robin_key h k hn

theorem C12_round_robin_all (r : Registry) (os : OpenSet) (h : RInv r os) (hn : 0 < os.length) :
    ((picksAll r os.length).2).Perm (os.map (fun e => some e.1)) :=
  round_robin_all h hn

-- non-vacuity: two tunnels with key 1, one with key 2; routing by key 1 alternates between the two
example :
    let r := ((Registry.open {} 10 1).open 11 2).open 12 1
    ((r.pickKey 1).2, ((r.pickKey 1).1.pickKey 1).2, r.all) = (some 12, some 10, [10, 11, 12]) := by decide

/-! ### WaitForReady: no lost wake-up (model with the identity of the `avail` channel:
TunnelModel/Waiters.lean; it refines to the `latchClosed` abstraction of `Pool`) -/

open TunnelModel.Waiters in
/-- **WaitForReady reflects whether the set is non-empty.**  For every sequence
    of adds, removes (redundant ones included, as the code performs them) and
    arriving waiters: whenever a tunnel is registered no caller is parked in
    `WaitForReady`; a parked caller waits on the CURRENT `avail` channel of an
    empty registry, so the next `add` releases it. -/
theorem C12_no_lost_wakeup (ops : List Op) :
    ((run ops).ready → ∀ w, ¬ (run ops).parked w) ∧
    (∀ w g, (w, g) ∈ (run ops).waiters → g ∉ (run ops).closedGens →
      g = (run ops).gen ∧ (run ops).chans = []) ∧
    (∀ t w, ¬ (run (ops ++ [Op.add t])).parked w) :=
  ⟨Proofs.Waiters.no_lost_wakeup ops, Proofs.Waiters.parked_on_current ops,
   fun t w => Proofs.Waiters.after_add_none_parked ops t w⟩

open TunnelModel.Waiters in
/-- a caller entering `WaitForReady` passes at once iff a tunnel is registered,
    and parks iff none is -/
theorem C12_wait_iff_ready (ops : List Op) (w : Nat) :
    ((run ops).waitPasses ↔ (run ops).ready) ∧
    ((run (ops ++ [Op.wait w])).parked w ↔ ¬ (run ops).ready) :=
  ⟨Proofs.Waiters.wait_returns_iff ops, Proofs.Waiters.wait_parks_iff ops w⟩

open TunnelModel.Waiters in
/-- `close(c.avail)` in `add` never hits a closed channel (no panic), and the
    latch is closed exactly while tunnels are registered -/
theorem C12_latch (ops : List Op) :
    ((run ops).gen ∈ (run ops).closedGens ↔ (run ops).chans ≠ []) ∧
    ((run ops).chans = [] → (run ops).gen ∉ (run ops).closedGens) :=
  ⟨(Proofs.Waiters.latch_inv ops).1, Proofs.Waiters.add_closes_open_channel ops⟩

open TunnelModel.Waiters in
/-- the statement is not trivially true: replacing `avail` on every remove that
    leaves the list empty (the seeded change C12-waitforready-lost-wakeup)
    loses a wake-up -/
theorem C12_faulty_remove_loses_wakeup :
    (runBuggy Proofs.Waiters.lostRun).ready ∧ (runBuggy Proofs.Waiters.lostRun).parked 7 :=
  Proofs.Waiters.buggy_loses_wakeup

open TunnelModel.Waiters TunnelModel.RoundRobin in
/-- the channel-identity model refines to the registry model used everywhere else -/
theorem C12_waiters_refine_pool (ops : List Op) :
    Proofs.Waiters.abs (run ops) = ops.foldl Proofs.Waiters.poolStep Pool.empty :=
  Proofs.Waiters.abs_run ops

/-! ### registration below quiescence: every interleaving of the registration and unregistration steps
     (L-atomic model `TunnelModel/RegAtomic.lean`) -/

open TunnelModel.RegAtomic Proofs.RegAtomic in
/-- **The registry is exact at every resting state, under every interleaving.**
    `n` reverse tunnels with arbitrary (colliding) keys; for each, the
    registration goroutine of `openReverseTunnel` (add to the global pool,
    look up or create the key's pool, add to it, park, and after the close the
    two deferred removes) and the `unregister` callback run by whoever closes
    the channel, at ANY time — even before the tunnel was added.  One action =
    one critical section.  In every reachable state in which no goroutine can
    move by itself, tunnel `t` is in the global pool iff it is in the pool
    registered for ITS key iff it is open and fully registered, and it is in
    no other pool. -/
theorem C12_registry_exact_at_rest (keys : List Nat) (as : List Act) {s : St}
    (hr : run true false (init keys) as = some s) (hrest : resting false s = true)
    (t : Nat) (ht : t < keys.length) :
    ∃ x, s.tuns[t]? = some x ∧ x.key = keys[t] ∧ ExactAt s t x :=
  registry_exact_at_rest keys as hr hrest t ht

open TunnelModel.RegAtomic Proofs.RegAtomic in
/-- exactness about tunnel `t` needs only ITS registration goroutine to be at rest -/
theorem C12_registry_exact_tunnel (keys : List Nat) (as : List Act) {s : St}
    (hr : run true false (init keys) as = some s) {t : Nat} {x : Tun}
    (hx : s.tuns[t]? = some x) (hg : x.gResting false = true) : ExactAt s t x :=
  registry_exact_tunnel keys as hr hx hg

open TunnelModel.RegAtomic Proofs.RegAtomic in
/-- **One pool per key, ever**: two goroutines (registering or unregistering) that hold a pool for the same key hold the same one, the one in the map -/
theorem C12_one_pool_per_key (keys : List Nat) (as : List Act) {s : St}
    (hr : run true false (init keys) as = some s) {t t' : Nat} {x x' : Tun}
    (ht : s.tuns[t]? = some x) (ht' : s.tuns[t']? = some x') (hk : x.key = x'.key)
    {p p' : Nat} (hp : HoldsPool x p) (hp' : HoldsPool x' p') :
    p = p' ∧ assoc x.key s.byKey = some p ∧ p < s.pools.length :=
  one_pool_per_key keys as hr ht ht' hk hp hp'

open TunnelModel.RegAtomic Proofs.RegAtomic in
/-- no goroutine is stuck by itself, and every schedule is finite (at most ten actions per tunnel) -/
theorem C12_registration_progress (keys : List Nat) (as : List Act) {s : St}
    (hr : run true false (init keys) as = some s) :
    (resting true s = false → ∃ a, (step true false s a).isSome = true) ∧ as.length ≤ 10 * keys.length :=
  ⟨progress keys as hr, by have := schedule_bounded keys as hr; omega⟩

open TunnelModel.RegAtomic Proofs.RegAtomic in
/-- **Why the pool look-up and creation must be ONE critical section** (the
    seeded change C12-double-checked-pool-creation; code-level premise:
    `C15_one_critical_section_per_function`): with a read-locked look-up and an
    unconditional create, two tunnels with the same key end open, parked — and in
    different pools, one of them orphaned. -/
theorem C12_double_checked_creation_orphans_a_pool :
    ∃ s x, run false false (init [7, 7]) doubleChecked = some s ∧ resting true s = true ∧
      s.tuns[0]? = some x ∧ ¬ ExactAt s 0 x :=
  faulty_double_checked_not_exact

end Proofs.C12
