import Proofs.Lemmas.Conformance
import Proofs.Lemmas.Emission
import TunnelModel.Generated.Facts
/-!
  C13 — emitted frames always conform to the documented tunnel protocol.

  Every clause of the property is a theorem about the frames the endpoint
  models emit, for EVERY sequence of events (frames of any kind from any peer,
  handler / caller operations, context ends), from a fresh stream — most need
  not even freshness.  The frames the real endpoints emit are compared with
  the models' frames, byte for byte, by the S-, C- and W1-world correspondence
  families, and checked against the same grammar by the wire monitors
  (`ServerWire`, `ClientWire` in checklib/monitors.py) on every run.

  * settings first, stream id -1, only once ............ `C13_settings_first`, `C13_no_other_settings`
  * one envelope + contiguous ≤16 KiB chunks summing to the size
        ................................................. `C13_message_framing` (from Proofs/Props/C01 + C06)
  * response headers at most once, before any data ...... `C13_headers_once`, `C13_headers_before_data`
  * half-close, cancel at most once; no data after half-close
        ................................................. `C13_halfClose_once`, `C13_cancel_once`, `C13_no_data_after_halfClose`
  * exactly one close frame per accepted / rejected stream, last frame of a stream the handler ended
        ................................................. `C13_one_close`, `C13_rejected_one_close`,
                                                          `C13_accepted_no_close_yet`, `C13_close_is_last`,
                                                          `C13_reply_close_is_last`
  * only `new_stream` opens a stream; no window updates in revision zero
        ................................................. `C13_no_newStream_midstream`, `C13_no_window_update_rev0` (both ends)
-/
namespace Proofs.C13
open TunnelModel.LFrame TunnelModel.Framing TunnelModel Proofs.Conformance

variable {α : Type}

/-- **Settings first.** `serve` starts by emitting exactly the settings frame,
    on stream id -1, when the client negotiates settings — and nothing otherwise. -/
theorem C13_settings_first (cfg : SCfg) :
    (Srv.start cfg : Srv α × Out α).2.frames =
      if cfg.sendSettings then [(-1, .settings cfg.W cfg.revs)] else [] :=
  S4_start cfg

/-- … and no later step of the server, whatever the stimuli, emits a settings frame. -/
theorem C13_no_other_settings (cfg : SCfg) (xs : List (SStim α)) (s : Srv α) :
    (sframes (Srv.run cfg s xs).2).all (fun f => !S.isSettings f) = true :=
  S4_run_no_settings cfg xs s

/-- **Response headers at most once** (any state, any events). -/
theorem C13_headers_once (cfg : SCfg) (sid : Sid) (s0 : SStream α) (evs : List (SEv α)) :
    ((sframes (SStream.runEv cfg sid s0 evs).2).filter S.isHeaders).length ≤ 1 :=
  S1_at_most_one_headers cfg sid s0 evs

/-- **Headers precede every response data frame.** -/
theorem C13_headers_before_data (cfg : SCfg) (sid : Sid) (s0 : SStream α) (h0 : SFresh s0)
    (evs : List (SEv α)) :
    ∀ pre f post, sframes (SStream.runEv cfg sid s0 evs).2 = pre ++ f :: post → S.isData f = true →
      ∃ h ∈ pre, S.isHeaders h = true :=
  S3_headers_before_data cfg sid s0 h0 evs

/-- **At most one close frame per stream, exactly one once it is finished.** -/
theorem C13_one_close (cfg : SCfg) (sid : Sid) (s0 : SStream α) (h0 : s0.closed = false)
    (evs : List (SEv α)) :
    ((sframes (SStream.runEv cfg sid s0 evs).2).filter S.isClose).length ≤ 1 ∧
    ((SStream.runEv cfg sid s0 evs).1.closed = true →
      ((sframes (SStream.runEv cfg sid s0 evs).2).filter S.isClose).length = 1) :=
  ⟨S2_at_most_one_close cfg sid s0 evs, S2_exactly_one_close cfg sid s0 h0 evs⟩

/-- **A rejected `new_stream` gets exactly one frame: its close frame.** -/
theorem C13_rejected_one_close (cfg : SCfg) (s : Srv α) (sid : Sid) (method : List Nat) (md : MD) (rev : Int)
    (win : Nat) (h1 : s.table.contains sid = false) (h2 : ¬ sid ≤ s.lastSeen)
    (hrej : s.closing = true ∨ (rev ≠ 0 ∧ rev ≠ 1) ∨ Method.resolve cfg.services method = .malformed ∨
            Method.resolve cfg.services method = .unimplemented) :
    ∃ code msg, (s.createStream cfg sid method md rev win).2.frames = [(sid, .close (mkStatus code msg) [])] ∧
      (s.createStream cfg sid method md rev win).1.streams = s.streams :=
  S6_rejected cfg s sid method md rev win h1 h2 hrej

/-- **An accepted `new_stream` emits nothing yet** and creates one fresh stream
    object (whose close frame `C13_one_close` then accounts for). -/
theorem C13_accepted_no_close_yet (cfg : SCfg) (s : Srv α) (sid : Sid) (method : List Nat) (md : MD) (rev : Int)
    (win : Nat) (svc : Method.Name) (f : Method.Found)
    (h1 : s.table.contains sid = false) (h2 : ¬ sid ≤ s.lastSeen)
    (hcl : s.closing = false) (hrev : rev = 0 ∨ rev = 1)
    (hres : Method.resolve cfg.services method = .found svc f) :
    (s.createStream cfg sid method md rev win).2.frames = [] ∧
    ∃ st0 : SStream α, SFresh st0 ∧ st0.fc = (rev == 1) ∧
      ((s.createStream cfg sid method md rev win).1.streams = s.streams ++ [(sid, st0)] ∨
       (s.createStream cfg sid method md rev win).1.streams = s.streams ++ [(sid, (st0.onCall cfg sid .recv).1)]) :=
  S6_accepted cfg s sid method md rev win svc f h1 h2 hcl hrev hres

/-- **The close frame is the last frame of a stream the handler ended**
    (streaming handler returning `st`): from any stream whose context had not
    ended, after any history `pre`, if the handler returns and makes no call
    afterwards, then whatever else happens (`post`: frames, context ends) the
    frames are those of `pre`, then the headers if they had not gone out, then
    the close frame with the handler's status and trailers — and nothing after
    it.  If the stream had been closed before (cancel, protocol error), the
    return emits nothing (the one close frame is already out). -/
theorem C13_close_is_last (cfg : SCfg) (sid : Sid) (s0 : SStream α) (h0 : s0.ctxDone = none)
    (pre post : List (SEv α)) (st : Status) (hpost : ∀ ev ∈ post, SEv.isCall ev = false) :
    let s := (SStream.runEv cfg sid s0 pre).1
    let r := SStream.runEv cfg sid s0 (pre ++ .call (.ret st) :: post)
    (s.closed = true → sframes r.2 = sframes (SStream.runEv cfg sid s0 pre).2) ∧
    (s.closed = false →
      sframes r.2 = (sframes (SStream.runEv cfg sid s0 pre).2 ++ (if s.sentHeaders then [] else [S2C.headers s.headers])) ++
        [S2C.close (SErr.wireStatus (if st.code = 0 then none else some (.status st))) s.trailers] ∧
      ∀ a f b, sframes r.2 = a ++ f :: b → S.isClose f = true → b = []) := by
  intro s r
  have h := S5_close_is_last_reachable cfg sid s0 h0 pre post st hpost
  exact ⟨h.2.2.1, h.2.2.2⟩

/-- … and likewise on the unary path (the handler returns a response, which
    may block on the window, complete later, or be aborted). -/
theorem C13_reply_close_is_last (cfg : SCfg) (sid : Sid) (s0 : SStream α) (pre post : List (SEv α)) (m : List α)
    (hc : (SStream.runEv cfg sid s0 pre).1.closed = false) (hpr : (SStream.runEv cfg sid s0 pre).1.pread = none)
    (hpost : ∀ ev ∈ post, SEv.isCall ev = false) :
    ∀ a f b, sframes (SStream.runEv cfg sid s0 (pre ++ .call (.reply m) :: post)).2 = a ++ f :: b →
      S.isClose f = true → b = [] :=
  S5_reply_nothing_after_close cfg sid s0 pre post m hc hpr hpost

/-- **Half-close at most once** (any state, any events). -/
theorem C13_halfClose_once (cfg : CCfg) (sid : Sid) (s0 : CStream α) (evs : List (CEv α)) :
    ((cframes (CStream.runEv cfg sid s0 evs).2).filter C.isHalfClose).length ≤ 1 :=
  C1_at_most_one_halfClose cfg sid s0 evs

/-- **Cancel at most once**, and never for an RPC that already has its result. -/
theorem C13_cancel_once (cfg : CCfg) (sid : Sid) (s0 : CStream α) (evs : List (CEv α)) :
    ((cframes (CStream.runEv cfg sid s0 evs).2).filter C.isCancel).length ≤ 1 ∧
    (s0.done.isSome = true → ((cframes (CStream.runEv cfg sid s0 evs).2).filter C.isCancel).length = 0) :=
  C1_at_most_one_cancel cfg sid s0 evs

/-- **No request data after half-close**, under the caller's contract (no
    `SendMsg` after `CloseSend`; `CloseSend` not concurrent with a `SendMsg`). -/
theorem C13_no_data_after_halfClose (cfg : CCfg) (sid : Sid) (s0 : CStream α) (h0 : s0.halfClosed = false)
    (evs : List (CEv α)) (hl : legalCloseSend cfg sid s0 false evs = true) :
    ∀ pre f post, cframes (CStream.runEv cfg sid s0 evs).2 = pre ++ f :: post → C.isHalfClose f = true →
      ∀ g ∈ post, C.isData g = false :=
  C3_no_data_after_halfClose cfg sid s0 h0 evs hl

/-- only `NewStream` emits `new_stream`: stream-level operations never do -/
theorem C13_no_newStream_midstream (cfg : CCfg) (sid : Sid) (s0 : CStream α) (evs : List (CEv α)) :
    (cframes (CStream.runEv cfg sid s0 evs).2).all (fun f => !C.isNewStream f) = true :=
  C2_no_newStream cfg sid s0 evs

/-- revision zero has no window updates, in either direction -/
theorem C13_no_window_update_rev0 (scfg : SCfg) (ccfg : CCfg) (sid : Sid) (s0 : SStream α) (c0 : CStream α)
    (hs : s0.fc = false) (hc : c0.fc = false) (sevs : List (SEv α)) (cevs : List (CEv α)) :
    (sframes (SStream.runEv scfg sid s0 sevs).2).all (fun f => !S.isWindowUpdate f) = true ∧
    (cframes (CStream.runEv ccfg sid c0 cevs).2).all (fun f => !C.isWindowUpdate f) = true :=
  ⟨S7_no_window_update scfg sid s0 hs sevs, C4_no_window_update ccfg sid c0 hc cevs⟩

/-- **Message framing, client → server.**  The data frames a client stream
    puts on the wire (in order; they are the only data frames of that stream,
    so they are contiguous within it) always parse under the documented
    grammar — each message is one envelope frame followed by continuation
    frames that add up exactly to the stated size, never more, never a new
    envelope before the previous message is complete — the `i`-th envelope
    states exactly the length of the `i`-th submitted message, and every frame
    carries at most `chunkMax` (16 KiB) bytes. -/
theorem C13_message_framing_client (cfg : CCfg) (hcm : 0 < cfg.chunkMax) (sid : Sid) (s0 : CStream α)
    (h0 : s0.psend = none) (evs : List (CEv α))
    (hl : CStream.legalSends cfg sid s0 false evs = true) :
    (∃ ms st, parse none (COut.emittedData (CStream.runEv cfg sid s0 evs).2) = (ms, .ok st) ∧
      ms <+: CEv.submitted evs) ∧
    Proofs.Emission.envSizes (COut.emittedData (CStream.runEv cfg sid s0 evs).2) <+: (CEv.submitted evs).map List.length ∧
    ∀ f ∈ COut.emittedData (CStream.runEv cfg sid s0 evs).2, f.size ≤ cfg.chunkMax :=
  ⟨Proofs.Emission.client_emits_chunkings cfg hcm sid s0 h0 evs hl,
   Proofs.Emission.client_envelopes_exact cfg hcm sid s0 h0 evs hl,
   Proofs.Emission.client_chunk_bound cfg hcm sid evs s0⟩

/-- **Message framing, server → client** (`_partial`: for handlers that make
    one send at a time and whose unary reply is their last call — what gRPC
    requires of a handler; `Proofs.Emission.server_emits_chunkings_as_requested_is_false`
    shows the statement without it is false of the model). -/
theorem C13_message_framing_server_partial (cfg : SCfg) (hcm : 0 < cfg.chunkMax) (sid : Sid)
    (s0 : SStream α) (h0 : s0.psend = none) (h0f : s0.finishAfterSend = false) (evs : List (SEv α))
    (hl : SStream.legalSends cfg sid s0 false evs = true) (hr : Proofs.Emission.sReplyIsLast evs = true) :
    (∃ ms st, parse none (Out.emittedData (SStream.runEv cfg sid s0 evs).2) = (ms, .ok st) ∧
      ms <+: SEv.submitted evs) ∧
    Proofs.Emission.envSizes (Out.emittedData (SStream.runEv cfg sid s0 evs).2) <+: (SEv.submitted evs).map List.length ∧
    ∀ f ∈ Out.emittedData (SStream.runEv cfg sid s0 evs).2, f.size ≤ cfg.chunkMax :=
  ⟨Proofs.Emission.server_emits_chunkings_partial cfg hcm sid s0 h0 h0f evs hl hr,
   Proofs.Emission.server_envelopes_exact_partial cfg hcm sid s0 h0 h0f evs hl hr,
   Proofs.Emission.server_chunk_bound cfg hcm sid evs s0⟩

/-- the chunk bound of the code is 16 KiB (constant regenerated from the sources) -/
theorem C13_chunk_is_16KiB : TunnelModel.Generated.chunkMax = 16384 := by decide

end Proofs.C13
