import Proofs.Lemmas.Teardown
import Proofs.Lemmas.Census
import Proofs.Lemmas.Registry
import Proofs.Props.C12
import Proofs.Lemmas.RegAtomic
/-!
  C14 — finished RPCs and finished tunnels leave nothing behind.

  Table part (proved for every reachable state of the endpoint models, i.e.
  after every history of frames from any peer, handler / caller operations,
  context ends, ticks and carrier failures):

  * the server's stream table is exactly the set of streams not yet finished ... `C14_server_table_exact`
  * a finished server stream never re-enters the table ......................... `C14_server_finished_stays_out`
  * the client's stream table is exactly the RPCs without terminal result ...... `C14_client_table_exact`
  * closing the channel empties the client table, and it stays empty ........... `C14_client_close_empties_table`
  * the reverse-tunnel registry lists exactly the open tunnels ................. `C14_registry_exact`

  Goroutine part: the library starts, per RPC, one handler goroutine and one
  context watcher on the server, one context watcher on the client (plus
  short-lived goroutines that only perform one carrier `Send`).  In the model
  a watcher lives while `ctxDone = none` and the handler goroutine while
  `hstatus ≠ returned`; `C14_server_no_goroutine_left` and
  `C14_client_no_goroutine_left` prove that a finished RPC has neither, and
  `C14_server_census` / `C14_client_census` give the exact number of goroutines
  of a reachable state.  The correspondence ties it to the code: the harness
  counts, at every quiescent moment of every scenario, the goroutines *created
  by* functions of the library (`runtime.Stack`) and the stream tables
  (`Verif*State`), and the differ compares both with the model's census and
  tables (`G=` and `T=` fields of every observation line).
-/
namespace Proofs.C14
open TunnelModel.LFrame TunnelModel Proofs.Teardown

variable {α : Type}

/-- **Server table = RPCs in flight.** -/
theorem C14_server_table_exact (cfg : SCfg) (xs : List (SStim α)) :
    let s := (Srv.run cfg ({} : Srv α) xs).1
    ∀ sid, sid ∈ s.table ↔ ∃ st, (sid, st) ∈ s.streams ∧ st.closed = false :=
  Proofs.Teardown.C14_server_table_exact cfg xs

/-- **A finished server stream stays out of the table**, whatever happens to it afterwards. -/
theorem C14_server_finished_stays_out (cfg : SCfg) (sid : Sid) (s : SStream α)
    (ops : List (Proofs.ServerShape.SOp α)) :
    (s.closed = true → (Proofs.ServerShape.runOps cfg sid s ops).1.closed = true) ∧
    (s.inTable = false → (Proofs.ServerShape.runOps cfg sid s ops).1.inTable = false) :=
  server_finished_stays_out cfg sid s ops

/-- every way of finishing a server stream removes it from the table -/
theorem C14_server_finish_leaves_table (sid : Sid) (s : SStream α) (err : Option SErr) (b : Bool) :
    (s.finish sid err b).1.closed = true ∧ (s.finish sid err b).1.inTable = false :=
  server_finish_leaves_table sid s err b

/-- **Client table = RPCs without terminal result.** -/
theorem C14_client_table_exact (cfg : CCfg) (xs : List (CStim α)) :
    let c := (Cli.run cfg (Cli.start cfg : Cli α) xs).1
    ∀ sid, sid ∈ c.table ↔ ∃ st, (sid, st) ∈ c.streams ∧ st.done = none :=
  Proofs.Teardown.C14_client_table_exact cfg xs

/-- **After the channel ends the client table is empty**, and stays empty. -/
theorem C14_client_close_empties_table (cfg : CCfg) (xs : List (CStim α)) (err : Option String) (b : Bool) :
    let c := (Cli.run cfg (Cli.start cfg : Cli α) xs).1
    (c.close err b).1.table = [] ∧ (c.finished.isSome = true → c.table = []) :=
  client_close_empties_table_run cfg xs err b

/-- **The reverse-tunnel registry holds exactly the open tunnels**: after every
    legal sequence of opens, closes and picks the registry's global pool and
    per-key pools list the tunnels opened and not yet closed (`RInv`), and
    `AllReverseTunnels` returns exactly those. -/
theorem C14_registry_exact (ops : List Proofs.Registry.ROp) (hl : Proofs.Registry.legal ops) :
    Proofs.Registry.RInv (Proofs.Registry.runReg ops) (Proofs.Registry.runSpec ops) ∧
    (Proofs.Registry.runReg ops).all = (Proofs.Registry.runSpec ops).map (·.1) :=
  ⟨Proofs.C12.C12_exact ops hl, (Proofs.C12.C12_exact ops hl).all_eq⟩

/-! ### goroutines (census definitions: TunnelModel/LFrame/Census.lean) -/

/-- **Server: a finished RPC holds no goroutine.** In every reachable state a
    stream that is finished has had its context ended (its watcher has exited),
    and a stream whose handler returned is finished: once the handler has
    returned nothing runs on the RPC's behalf. -/
theorem C14_server_no_goroutine_left (cfg : SCfg) (xs : List (SStim α)) :
    let s := (Srv.run cfg ({} : Srv α) xs).1
    (∀ e ∈ s.streams, e.2.closed = true → e.2.ctxDone.isSome = true) ∧
    (∀ e ∈ s.streams, e.2.hstatus = .returned →
      e.2.closed = true ∧ e.2.ctxDone.isSome = true ∧ sGoroutines e.2 = 0) :=
  ⟨Proofs.Census.closed_ctxDone_run cfg xs, (Proofs.Census.server_quiescent_census cfg xs).2.2⟩

/-- **Server census**: at every quiescent moment the goroutines held for RPCs
    are exactly one per handler that has not returned plus one per stream
    context that has not ended — and an open context belongs to an unfinished RPC. -/
theorem C14_server_census (cfg : SCfg) (xs : List (SStim α)) :
    let s := (Srv.run cfg ({} : Srv α) xs).1
    srvCensus s = (s.streams.filter (fun e => e.2.hstatus != .returned)).length +
                  (s.streams.filter (fun e => e.2.ctxDone.isNone)).length ∧
    (∀ e ∈ s.streams, e.2.ctxDone = none → e.2.closed = false) :=
  ⟨(Proofs.Census.server_quiescent_census cfg xs).1, (Proofs.Census.server_quiescent_census cfg xs).2.1⟩

/-- **Server: after the tunnel ended only running handlers remain** (none of
    them blocked in the library, `C04_server_returned_never_blocks`), and when
    they have returned nothing remains. -/
theorem C14_server_after_tunnel_end (cfg : SCfg) (xs : List (SStim α)) :
    let s := (Srv.run cfg ({} : Srv α) xs).1
    (s.returned.isSome = true →
      srvCensus s = (s.streams.filter (fun e => e.2.hstatus != .returned)).length) ∧
    (srvCensus s = 0 ↔ ∀ e ∈ s.streams, e.2.hstatus = .returned) :=
  ⟨Proofs.Census.server_census_after_return cfg xs, Proofs.Census.server_census_zero_iff cfg xs⟩

/-- **Client: an RPC with its terminal result holds no goroutine.** -/
theorem C14_client_no_goroutine_left (cfg : CCfg) (xs : List (CStim α)) :
    ∀ e ∈ (Cli.run cfg (Cli.start cfg : Cli α) xs).1.streams,
      e.2.done.isSome = true → cGoroutines e.2 = 0 :=
  Proofs.Census.client_no_goroutine_left cfg xs

/-- **Client: after the channel ended no goroutine is left** (receive loop and
    every watcher have exited). -/
theorem C14_client_after_tunnel_end (cfg : CCfg) (xs : List (CStim α)) :
    let c := (Cli.run cfg (Cli.start cfg : Cli α) xs).1
    c.finished.isSome = true → cliCensus c = 0 :=
  Proofs.Census.client_census_after_close cfg xs

/-! ### the registry after the tunnels ended, under every interleaving (`TunnelModel/RegAtomic.lean`) -/

open TunnelModel.RegAtomic Proofs.RegAtomic in
/-- **Nothing is left in the registry**: whatever the interleaving of the
    registration steps, the closes (at any moment, even before registration) and
    the `unregister` callbacks, once every tunnel is closed and every goroutine
    has finished, the global pool and every per-key pool are empty. -/
theorem C14_registry_nothing_left_behind (keys : List Nat) (as : List Act) {s : St}
    (hr : run true false (init keys) as = some s) (hover : allOver s = true) :
    s.global = [] ∧ (∀ l ∈ s.pools, l = []) ∧ ∀ k, keyPool s k = [] :=
  nothing_left_behind keys as hr hover

open TunnelModel.RegAtomic Proofs.RegAtomic in
/-- **Why there are two independent deferred removes** (the seeded change
    C14-unregister-instead-of-two-removes): with one deferred `unregister`
    instead, a tunnel closed between the two registration steps stays in its
    key's pool for good. -/
theorem C14_single_unregister_leaves_entry :
    ∃ s, run true true (init [7]) (closedInBetween [.sRemGlobal 0]) = some s ∧ allOver s = true ∧
      ¬ (∀ l ∈ s.pools, l = []) :=
  faulty_single_unregister_not_empty

end Proofs.C14
