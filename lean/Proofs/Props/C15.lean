import TunnelModel.Generated.Locks
/-!
  C15 — data-race freedom and thread safety (PARTIAL: lock discipline,
  publication discipline and lock-order acyclicity of the code as extracted
  from /repo's sources on every run; the Go memory model itself and the
  soundness of the syntactic extraction are trusted, see DESIGN.md).

  `TunnelModel.Generated.accessTable` lists every syntactic access to every
  field of the shared structs with the mutexes held there (intra- and
  inter-procedurally: a helper called only with a lock held inherits it).  The
  hand-written `protections` table below says how each field is protected;
  `C15_discipline` is the obligation that every extracted access obeys it.
  A removed or narrowed lock, a new unlocked access, a new field without a
  protection, or a write outside the constructor breaks the `decide`.
-/
namespace Proofs.C15
open TunnelModel.Generated

/-- how a field is protected -/
inductive Prot where
  | init                                   -- written only while the object is being constructed (before it is shared); read freely
  | mutex (l : String)                     -- every access outside construction holds this mutex
  | atomic                                 -- every access is an atomic method (or construction)
  | lock                                   -- the field is a mutex / wait-group / once / cond: only its own methods are used
  | chan                                   -- channel used only through send / receive / close (creation in construction)
  | published (writers readers : List String)
      -- written only in `writers` (each write ordered before a publication barrier by the
      -- micro-model / code order named in DESIGN.md), read only in `readers` after that barrier
  deriving Repr

/-- functions in which an object is constructed and not yet shared -/
def ctors : List String :=
  ["newTunnelChannel", "serveTunnel", "tunnelServer.createStream", "tunnelChannel.allocateStream",
   "newSender", "newReceiver", "newReceiverWithoutFlowControl", "newSenderWithoutFlowControl",
   "newReverseChannels", "NewTunnelServiceHandler", "NewReverseTunnelServer",
   "pendingChannel.Start", "newReverseChannel", "ReverseTunnelServer.Serve", "TunnelServiceHandler.openTunnel"]

def obeys (p : Prot) (a : Access) : Bool :=
  a.inLiteral ||
  match p with
  | .init => !a.write || ctors.contains a.fn
  | .mutex l => a.held.contains l || (ctors.contains a.fn && a.how == "plain" && a.strct != "tunnelChannel" && a.strct != "tunnelServer")
  | .atomic => a.how == "atomic"
  | .lock => a.how == "lockop" || !a.write
  | .chan => a.how == "chan-recv" || a.how == "chan-close" || a.how == "chan" || !a.write || a.held != []
  | .published ws rs => if a.write then ws.contains a.fn else (rs.contains a.fn || ws.contains a.fn)

/-- the protections table (DESIGN.md appendix G), keyed by struct and field -/
def protections : List ((String × String) × Prot) := [
  -- tunnelChannel
  (("tunnelChannel", "stream"), .init), (("tunnelChannel", "tunnelMetadata"), .init),
  (("tunnelChannel", "serverSendsSettings"), .init), (("tunnelChannel", "tunnelOpts"), .init),
  (("tunnelChannel", "ctx"), .init), (("tunnelChannel", "cancel"), .init), (("tunnelChannel", "tearDown"), .init),
  (("tunnelChannel", "awaitSettings"), .chan),
  -- written by recvLoop before close(awaitSettings); read by newStream / allocateStream, which run only after
  -- newTunnelChannel returned: behind awaitSettings, or (ctx.Done arm) behind the `finished` check under mu
  (("tunnelChannel", "settings"), .published ["tunnelChannel.recvLoop"] ["tunnelChannel.allocateStream"]),
  (("tunnelChannel", "useRevision"), .published ["tunnelChannel.recvLoop"] ["tunnelChannel.allocateStream", "tunnelChannel.newStream"]),
  (("tunnelChannel", "mu"), .lock), (("tunnelChannel", "streamCreation"), .lock),
  (("tunnelChannel", "streams"), .mutex "tunnelChannel.mu"), (("tunnelChannel", "lastStreamID"), .mutex "tunnelChannel.mu"),
  (("tunnelChannel", "streamCreated"), .mutex "tunnelChannel.mu"), (("tunnelChannel", "err"), .mutex "tunnelChannel.mu"),
  (("tunnelChannel", "finished"), .mutex "tunnelChannel.mu"),
  -- tunnelClientStream
  (("tunnelClientStream", "ctx"), .init), (("tunnelClientStream", "cancel"), .init), (("tunnelClientStream", "ch"), .init),
  (("tunnelClientStream", "streamID"), .init), (("tunnelClientStream", "method"), .init), (("tunnelClientStream", "stream"), .init),
  (("tunnelClientStream", "headersTargets"), .init), (("tunnelClientStream", "trailersTargets"), .init),
  (("tunnelClientStream", "isClientStream"), .init), (("tunnelClientStream", "isServerStream"), .init),
  (("tunnelClientStream", "sender"), .init), (("tunnelClientStream", "receiver"), .init),
  (("tunnelClientStream", "gotHeadersSignal"), .chan), (("tunnelClientStream", "doneSignal"), .chan),
  (("tunnelClientStream", "done"), .atomic),
  (("tunnelClientStream", "metaMu"), .lock), (("tunnelClientStream", "readMu"), .lock), (("tunnelClientStream", "writeMu"), .lock),
  (("tunnelClientStream", "gotHeaders"), .mutex "tunnelClientStream.metaMu"),
  -- written under metaMu before close(gotHeadersSignal); read by Header() after receiving from it
  (("tunnelClientStream", "headers"), .published ["tunnelClientStream.acceptServerFrame"] ["tunnelClientStream.Header"]),
  -- written under metaMu before close(doneSignal); read by Trailer() after receiving from it
  (("tunnelClientStream", "trailers"), .published ["tunnelClientStream.finishStream"] ["tunnelClientStream.Trailer"]),
  (("tunnelClientStream", "readErr"), .mutex "tunnelClientStream.readMu"),
  (("tunnelClientStream", "numSent"), .mutex "tunnelClientStream.writeMu"),
  (("tunnelClientStream", "halfClosed"), .mutex "tunnelClientStream.writeMu"),
  -- tunnelServer
  (("tunnelServer", "stream"), .init), (("tunnelServer", "services"), .init), (("tunnelServer", "clientAcceptsSettings"), .init),
  (("tunnelServer", "tunnelOpts"), .init), (("tunnelServer", "isClosing"), .init),
  (("tunnelServer", "mu"), .lock),
  (("tunnelServer", "streams"), .mutex "tunnelServer.mu"), (("tunnelServer", "lastSeen"), .mutex "tunnelServer.mu"),
  -- tunnelServerStream
  (("tunnelServerStream", "ctx"), .init), (("tunnelServerStream", "cancel"), .init), (("tunnelServerStream", "svr"), .init),
  (("tunnelServerStream", "streamID"), .init), (("tunnelServerStream", "method"), .init), (("tunnelServerStream", "stream"), .init),
  (("tunnelServerStream", "isClientStream"), .init), (("tunnelServerStream", "isServerStream"), .init),
  (("tunnelServerStream", "sender"), .init), (("tunnelServerStream", "receiver"), .init),
  (("tunnelServerStream", "halfClosed"), .atomic),
  (("tunnelServerStream", "readMu"), .lock), (("tunnelServerStream", "writeMu"), .lock),
  (("tunnelServerStream", "readErr"), .mutex "tunnelServerStream.readMu"),
  (("tunnelServerStream", "numSent"), .mutex "tunnelServerStream.writeMu"),
  (("tunnelServerStream", "headers"), .mutex "tunnelServerStream.writeMu"),
  (("tunnelServerStream", "trailers"), .mutex "tunnelServerStream.writeMu"),
  (("tunnelServerStream", "sentHeaders"), .mutex "tunnelServerStream.writeMu"),
  (("tunnelServerStream", "closed"), .mutex "tunnelServerStream.writeMu"),
  -- flow control
  (("defaultSender", "ctx"), .init), (("defaultSender", "sendFunc"), .init), (("defaultSender", "windowUpdates"), .chan),
  (("defaultSender", "currentWindow"), .atomic), (("defaultSender", "mu"), .lock),
  (("defaultReceiver", "measure"), .init), (("defaultReceiver", "updateWindow"), .init),
  (("defaultReceiver", "mu"), .lock), (("defaultReceiver", "cond"), .mutex "defaultReceiver.mu"),
  (("defaultReceiver", "closed"), .mutex "defaultReceiver.mu"), (("defaultReceiver", "cancelled"), .mutex "defaultReceiver.mu"),
  (("defaultReceiver", "items"), .mutex "defaultReceiver.mu"), (("defaultReceiver", "currentWindow"), .mutex "defaultReceiver.mu"),
  (("noFlowControlSender", "sendFunc"), .init), (("noFlowControlSender", "mu"), .lock),
  (("noFlowControlReceiver", "ctx"), .init), (("noFlowControlReceiver", "ingestMu"), .lock),
  (("noFlowControlReceiver", "ch"), .chan), (("noFlowControlReceiver", "closed"), .chan), (("noFlowControlReceiver", "doClose"), .lock),
  -- registry and servers
  (("reverseChannels", "mu"), .lock), (("reverseChannels", "avail"), .mutex "reverseChannels.mu"),
  (("reverseChannels", "chans"), .mutex "reverseChannels.mu"), (("reverseChannels", "idx"), .mutex "reverseChannels.mu"),
  (("TunnelServiceHandler", "handlers"), .init), (("TunnelServiceHandler", "noReverseTunnels"), .init),
  (("TunnelServiceHandler", "onReverseTunnelConnect"), .init), (("TunnelServiceHandler", "onReverseTunnelDisconnect"), .init),
  (("TunnelServiceHandler", "affinityKey"), .init), (("TunnelServiceHandler", "tunnelOpts"), .init),
  (("TunnelServiceHandler", "reverse"), .init), (("TunnelServiceHandler", "mu"), .lock),
  (("TunnelServiceHandler", "reverseByKey"), .mutex "TunnelServiceHandler.mu"),
  -- `stopping.Load` is passed as a method value (an atomic load); the store is atomic
  (("TunnelServiceHandler", "stopping"), .published ["TunnelServiceHandler.InitiateShutdown"] ["TunnelServiceHandler.openTunnel"]),
  (("ReverseTunnelServer", "stub"), .init), (("ReverseTunnelServer", "opts"), .init), (("ReverseTunnelServer", "handlers"), .init),
  (("ReverseTunnelServer", "mu"), .lock), (("ReverseTunnelServer", "wg"), .lock),
  (("ReverseTunnelServer", "instances"), .mutex "ReverseTunnelServer.mu"), (("ReverseTunnelServer", "state"), .mutex "ReverseTunnelServer.mu"),
  -- thread-safe carrier wrappers: the embedded stream is used for sending under sendMu and for receiving under recvMu
  (("threadSafeOpenTunnelClient", "sendMu"), .lock), (("threadSafeOpenTunnelClient", "recvMu"), .lock),
  (("threadSafeOpenTunnelClient", "TunnelService_OpenTunnelClient"), .chan),
  (("threadSafeOpenReverseTunnelServer", "sendMu"), .lock), (("threadSafeOpenReverseTunnelServer", "recvMu"), .lock),
  (("threadSafeOpenReverseTunnelServer", "TunnelService_OpenReverseTunnelServer"), .chan),
  (("threadSafeOpenReverseTunnelClient", "sendMu"), .lock), (("threadSafeOpenReverseTunnelClient", "recvMu"), .lock),
  (("threadSafeOpenReverseTunnelClient", "closed"), .mutex "threadSafeOpenReverseTunnelClient.sendMu"),
  (("threadSafeOpenReverseTunnelClient", "TunnelService_OpenReverseTunnelClient"), .chan),
  (("threadSafeOpenTunnelServer", "sendMu"), .lock), (("threadSafeOpenTunnelServer", "recvMu"), .lock),
  (("threadSafeOpenTunnelServer", "TunnelService_OpenTunnelServer"), .chan)
]

def protOf (a : Access) : Option Prot := protections.lookup (a.strct, a.field)

/-- an access is fine iff its field has a declared protection and the access obeys it -/
def accessOK (a : Access) : Bool :=
  match protOf a with
  | none => false
  | some p => obeys p a

def violations (t : List Access) : List Access := t.filter (fun a => !accessOK a)

/-- **Lock / publication discipline of the current sources.** -/
theorem C15_discipline : violations accessTable = [] := by decide +kernel

/-! ### lock order -/

/-- nodes reachable from `n` in at most `fuel` steps -/
def reach (edges : List (String × String)) : Nat → List String → List String
  | 0, front => front
  | fuel + 1, front =>
    let next := (edges.filter (fun e => front.contains e.1)).map (·.2)
    reach edges fuel (front ++ next.filter (fun x => !front.contains x))

/-- no lock is (transitively) acquired while it is already held -/
def acyclic (edges : List (String × String)) : Bool :=
  edges.all (fun e => !(reach edges edges.length [e.2]).contains e.1)

/-- **The lock-order graph of the current sources has no cycle** (so no
    deadlock by lock inversion among the package's own mutexes). -/
theorem C15_lock_order_acyclic : acyclic lockOrderEdges = true := by decide +kernel

end Proofs.C15
