import TunnelModel.Generated.Locks
import Proofs.Lemmas.LockTable
import Proofs.Lemmas.Lockset
/-!
  C15 — data-race freedom and thread safety (PARTIAL: lock discipline,
  publication discipline and lock-order acyclicity of the code as extracted
  from /repo's sources on every run; the Go memory model itself and the
  soundness of the syntactic extraction are trusted, see DESIGN.md).

  `TunnelModel.Generated.accessTable` lists every syntactic access to every
  field of the shared structs with the mutexes held there (intra- and
  inter-procedurally: a helper called only with a lock held inherits it).  The
  hand-written `protections` table below says how each field is protected;
  `C15_discipline` is the obligation that every extracted access obeys it.
  A removed or narrowed lock, a new unlocked access, a new field without a
  protection, or a write outside the constructor breaks the `decide`.
-/
namespace Proofs.C15
open TunnelModel.Generated

/-- **Lock / publication discipline of the current sources.** -/
theorem C15_discipline : violations accessTable = [] := by decide +kernel

/-! ### blocking calls and the receive loops -/

/-- **No potentially blocking call is made while holding a lock a receive loop
    needs**: every carrier `Send`/`Recv`, every window-update / send callback
    and every user callback in the current sources is invoked holding only
    locks from its `callUnder` list (`C15_discipline`), and none of those lists
    contains a receive-loop lock.  This is the code-level premise of
    `C09_loop_never_blocks_fc` / `C03_no_hol` / C05's "a stalled stream cannot
    stall the tunnel": `accept` can always take the locks it needs promptly. -/
theorem C15_blocking_calls_hold_no_loop_lock :
    (blockingAllowed.filter loopLocks.contains) = [] ∧
    (accessTable.filter (fun a => a.how == "call" &&
        (match protOf a with | some (.callUnder _) => true | _ => false) &&
        a.held.any loopLocks.contains)) = [] := by decide +kernel

/-- **The receive loops never perform a carrier `Send`** (nor invoke a callback
    that does): every such call reachable from `serve` / `recvLoop` on the
    loop's own goroutine would let a full carrier stall the loop, and with it
    every stream of the tunnel.  Close / cancel / rejection frames and window
    updates are sent from goroutines of their own or by the application's
    goroutines.  Reachability is computed in Lean over the call edges
    regenerated from the sources (interface calls resolved by name). -/
theorem C15_receive_loops_never_send :
    loopSendViolations accessTable = [] ∧ loopRootIds.length = loopRoots.length := by decide +kernel

/-- **Nobody waits for other goroutines with a mutex held**: `Stop` /
    `GracefulStop` wait for the `Serve` calls (`wg.Wait`) only after releasing
    `ReverseTunnelServer.mu`, which every tunnel of the server needs to decide
    whether to refuse a new RPC (`isClosing`). -/
theorem C15_waits_hold_no_lock : lockedWaitViolations accessTable = [] := by decide +kernel

/-! ### atomicity: one critical section per function -/

/-- **No function splits its work on lock-protected data over two critical
    sections of the same lock** (with a write in one of them), and nothing is
    written under a read lock.  The discipline above only says that each access
    holds the lock; it cannot see a check made in one critical section and acted
    upon in a later one (double-checked locking without the second check, a lock
    narrowed around a slow call): the state may have changed in between.  In
    the current sources every function that takes a mutex reads and writes the
    data it protects inside ONE critical section, so every such function is
    atomic with respect to that lock.  Regenerated from the sources on every
    run (`lockSections`: one id per `Lock`/`RLock` statement of a function). -/
theorem C15_one_critical_section_per_function :
    splitSections lockSections = [] ∧ writesUnderRLock lockSections = [] := by decide +kernel

/-- **No wake-up needs a lock its sleeper holds**: wherever a function waits on a
    channel with a mutex held (the flow-controlled sender on `windowUpdates`, the
    revision-zero receiver's `accept` on `closed`, `CloseSend` on `doneSignal`),
    no function closes or sends on that channel while holding that mutex.  In
    particular the revision-zero receiver's `close()` closes `closed` before it
    takes `ingestMu` — the code-level premise of "finishing a stream releases a
    receive loop parked in the one-slot hand-off". -/
theorem C15_wakeups_need_no_sleeper_lock :
    wakeupViolations accessTable = [] ∧ (lockedChanWaits accessTable).length = 3 := by decide +kernel

/-! ### lock order -/

/-- **The lock-order graph of the current sources has no cycle** (so no
    deadlock by lock inversion among the package's own mutexes). -/
theorem C15_lock_order_acyclic : acyclic lockOrderEdges = true := by decide +kernel

/-! ### why the discipline implies race freedom (the lockset argument, proved once) -/

open TunnelModel.Lockset in
/-- **Lockset theorem.**  In every well-formed execution (mutual exclusion
    respected), two accesses by different goroutines made while each holds a
    common mutex are ordered by happens-before. -/
theorem C15_hb_of_common_lock (tr : Trace) (hwf : WF tr) (i j : Nat) (hij : i < j)
    (hj : j < tr.length) (t u : Tid) (l : Lck)
    (hi : (tr[i]?).map Ev.tid = some t) (hju : (tr[j]?).map Ev.tid = some u)
    (htu : t ≠ u) (hhi : holds tr i t l) (hhj : holds tr j u l) : HB tr i j :=
  Proofs.Lockset.hb_of_common_lock tr hwf i j hij hj t u l hi hju htu hhi hhj

open TunnelModel.Lockset in
/-- **Publication theorem** (`.published` rows): a write sequenced before
    `close(c)` happens before a read sequenced after a receive that saw the close. -/
theorem C15_hb_of_publication (tr : Trace) (i k m j : Nat) (t u : Tid) (c : Chn)
    (hik : i < k) (hkm : k < m) (hmj : m < j) (hj : j < tr.length)
    (hi : (tr[i]?).map Ev.tid = some t) (hk : tr[k]? = some (.close t c))
    (hm : tr[m]? = some (.recv u c)) (hju : (tr[j]?).map Ev.tid = some u) :
    HB tr i j :=
  Proofs.Lockset.hb_of_publication tr i k m j t u c hik hkm hmj hj hi hk hm hju

open TunnelModel.Lockset in
/-- **Construction theorem** (`.init` rows): what a goroutine wrote before the
    `go` statement happens before everything the started goroutine does. -/
theorem C15_hb_of_go (tr : Trace) (hwf : WF tr) (i k j : Nat) (t u : Tid) (hik : i < k)
    (hi : (tr[i]?).map Ev.tid = some t) (hk : tr[k]? = some (.go t u))
    (hju : (tr[j]?).map Ev.tid = some u) : HB tr i j :=
  Proofs.Lockset.hb_of_go_wf tr hwf i k j t u hik hi hk hju

open TunnelModel.Lockset in
/-- **Discipline ⇒ no data race**: if one mutex is held at every access to `x`
    (what `C15_discipline` establishes syntactically for every `.mutex` row),
    every two conflicting accesses to `x` in every well-formed execution are
    ordered by happens-before. -/
theorem C15_race_free_of_discipline (tr : Trace) (hwf : WF tr) (x : Var)
    (hp : Protected tr x) :
    ∀ i j, i ≠ j → conflict tr i j x → HB tr i j ∨ HB tr j i :=
  Proofs.Lockset.race_free_of_discipline tr hwf x hp

end Proofs.C15
