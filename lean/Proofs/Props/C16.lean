import TunnelModel.LFrame.Server
import Proofs.Lemmas.ServerShape
import Proofs.Lemmas.ClientShape
/-!
  C16 — unary and single-message call shapes are enforced on both ends
  (server side here; the caller's side is in `Proofs/Props/C16Client.lean`).
-/
namespace Proofs.C16
open TunnelModel.LFrame TunnelModel.Framing

variable {α : Type}

/-- **Second send refused (server).** A handler's second `SendMsg` on a method
    with a non-streaming response is refused with `Internal` and puts no
    message data on the wire (only the headers frame, if it had not gone out). -/
theorem C16_second_send_refused (cfg : SCfg) (sid : Sid) (s : SStream α) (m : List α)
    (hss : s.ss = false) (hn : s.numSent = 1) :
    let r := s.onCall cfg sid (.send m)
    r.2.dones = [(sid, "send", .status codeInternal)] ∧
    (∀ f ∈ r.2.frames, ∃ md, f = (sid, .headers md)) ∧ r.1.numSent = 1 := by
  by_cases hh : s.sentHeaders = true <;> simp [SStream.onCall, hh, hss, hn]

/-- the sticky end-of-requests marker: once the look-ahead of a non-client-stream
    method has seen the end of the request stream, every later `RecvMsg`
    returns end-of-stream and delivers nothing -/
theorem C16_recv_after_eof (sid : Sid) (s : SStream α) (hst : s.hstatus = .running)
    (he : s.readErr = some .eof) :
    s.startRecv sid = (s, { dones := [(sid, "recv", .eof)] }) := by
  simp [SStream.startRecv, he, hst, SStream.afterDecode, SErr.toRes]

/-- a sticky read error of any kind is returned again, nothing is delivered -/
theorem C16_recv_sticky (sid : Sid) (s : SStream α) (e : SErr) (hst : s.hstatus = .running)
    (he : s.readErr = some e) :
    s.startRecv sid = (s, { dones := [(sid, "recv", e.toRes)] }) := by
  simp [SStream.startRecv, he, hst, SStream.afterDecode]

/-- **At most one request is ever delivered** to the handler of a method with
    a non-streaming request, over every sequence of stream-level operations
    (frames of any kind from any peer, handler calls, context ends), from any
    state. -/
theorem C16_server_at_most_one (cfg : SCfg) (sid : Sid) (s0 : SStream α) (h0 : s0.cs = false)
    (ops : List (Proofs.ServerShape.SOp α)) : (Proofs.ServerShape.runOps cfg sid s0 ops).2 ≤ 1 :=
  Proofs.ServerShape.C16_server_at_most_one cfg sid s0 h0 ops

/-- … and once it has been delivered, nothing is delivered any more and every
    further read returns the sticky error. -/
theorem C16_server_reads_fail_after_delivery (cfg : SCfg) (sid : Sid) (s0 : SStream α) (h0 : s0.cs = false)
    (ops1 ops2 : List (Proofs.ServerShape.SOp α)) (h1 : (Proofs.ServerShape.runOps cfg sid s0 ops1).2 = 1) :
    (Proofs.ServerShape.runOps cfg sid (Proofs.ServerShape.runOps cfg sid s0 ops1).1 ops2).2 = 0 :=
  (Proofs.ServerShape.C16_server_reads_fail_after_delivery cfg sid s0 h0 ops1 ops2 h1).1

/-- **A second request fails the RPC with InvalidArgument**: when the eager
    look-ahead finds another complete message, the call completes with
    InvalidArgument, nothing is delivered, and the stream is finished (close
    frame with InvalidArgument unless already closed). -/
theorem C16_second_request_fails (sid : Sid) (fuel : Nat) (s : SStream α) (p : PRead α) (m m2 : List α)
    (w : Nat) (q : List (DFrame α)) (cs' : List Nat)
    (hp : s.pread = some p) (hl : p.lookahead = some m)
    (hr : readLoop s.rcv.rwin s.rcv.queue p.rst = (w, q, cs', some (.msg m2))) :
    Proofs.ServerShape.delivered (s.resumeRead sid "" (fuel + 1)).2 = 0 ∧
    (s.resumeRead sid "" (fuel + 1)).1.closed = true ∧ (s.resumeRead sid "" (fuel + 1)).1.inTable = false :=
  let h := Proofs.ServerShape.C16_second_request_fails sid fuel s p m m2 w q cs' hp hl hr
  ⟨h.2.1, h.2.2.2.2.1, h.2.2.2.2.2.1⟩

/-! ### caller side -/

/-- **At most one response is ever delivered** to the caller of a method with a
    non-streaming response, over every sequence of stream-level operations
    (frames of any kind from any peer, caller calls, context ends), from any
    state. -/
theorem C16_client_at_most_one (cfg : CCfg) (sid : Sid) (s0 : CStream α) (h0 : s0.ss = false)
    (ops : List (Proofs.ClientShape.COp α)) : (Proofs.ClientShape.runOps cfg sid s0 ops).2 ≤ 1 :=
  Proofs.ClientShape.C16_client_at_most_one cfg sid s0 h0 ops

/-- **Several responses never yield success**: when the look-ahead finds a
    second response, `RecvMsg` returns Internal, delivers nothing, and (if the
    RPC was still live) the terminal result becomes that Internal error and a
    cancel frame is sent. -/
theorem C16_second_response_fails (sid : Sid) (fuel : Nat) (s : CStream α) (p : PRead α) (m m2 : List α)
    (w : Nat) (q : List (DFrame α)) (cs' : List Nat)
    (hp : s.pread = some p) (hl : p.lookahead = some m)
    (hr : readLoop s.rcv.rwin s.rcv.queue p.rst = (w, q, cs', some (.msg m2))) :
    let a := CStream.afterRead sid (s.resumeRead sid (fuel + 1))
    Proofs.ClientShape.delivered a.2 = 0 ∧
    (∃ rest, a.2.dones = (sid, "recv", .status codeInternal) :: rest) ∧
    (s.done = none → a.1.done = some (.status (mkStatus codeInternal "Server sent multiple responses for non-server-stream method"))
      ∧ (sid, C2S.cancel) ∈ a.2.frames) := by
  have h := Proofs.ClientShape.C16_second_response_fails sid fuel s p m m2 w q cs' hp hl hr
  refine ⟨h.2.1.2.2.1, h.2.1.2.2.2, fun hd => ?_⟩
  have h3 := h.2.2.1 hd
  exact ⟨h3.1, by rw [h3.2.1]; simp⟩

/-- **A second send on a non-streaming request side is refused** with Internal
    and puts nothing on the wire. -/
theorem C16_client_second_send_refused (cfg : CCfg) (sid : Sid) (s : CStream α) (m : List α)
    (hcs : s.cs = false) (hn : s.numSent = 1) :
    s.onCall cfg sid (.send m) = (s, { dones := [(sid, "send", .status codeInternal)] }) := by
  simp [CStream.onCall, hcs, hn]

-- non-vacuity: server-stream method, second message after the first completes the look-ahead with an error
example :
    let s : SStream Nat := { cs := false, ss := true, unary := false, fc := true, rcv := RcvQ.init 10, win := 10, hstatus := .running }
    let s1 := (s.onFrame {} 1 (.msg 1 [7])).1
    let s2 := (s1.onFrame {} 1 (.msg 1 [8])).1
    ((s2.startRecv 1).2.dones.map (·.2.1)) = ["recv"] ∧ (s2.startRecv 1).1.closed = true := by
  decide

end Proofs.C16
