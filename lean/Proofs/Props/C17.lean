import TunnelModel.Context
import TunnelModel.Generated.Facts
/-!
  C17 — handlers and callers can identify the tunnel, peer and opening
  metadata; what the accessors return is a private copy.
-/
namespace Proofs.C17
open TunnelModel.Context

/-- **Values of the opening call are inherited.** Every key the tunnel does not
    set itself (peer, interceptor values, …) has in a tunnelled handler's
    context exactly the value it has in the tunnel-opening call's context. -/
theorem C17_inherited (carrier : Ctx) (tmd rmd : Ref) (ts : Nat) (k : Key)
    (h1 : k ≠ kTunnelMDIncoming) (h2 : k ≠ kIncomingMD) (h3 : k ≠ kTransportStream) :
    lookup (handlerCtx carrier tmd rmd ts) k = lookup carrier k := by
  have e1 : (kTransportStream == k) = false := by simpa using fun h => h3 h.symm
  have e2 : (kIncomingMD == k) = false := by simpa using fun h => h2 h.symm
  have e3 : (kTunnelMDIncoming == k) = false := by simpa using fun h => h1 h.symm
  simp [handlerCtx, withValue, lookup, List.find?, e1, e2, e3]

/-- the handler's context carries the tunnel's opening metadata and this RPC's request metadata -/
theorem C17_handler_values (carrier : Ctx) (tmd rmd : Ref) (ts : Nat) :
    lookup (handlerCtx carrier tmd rmd ts) kTunnelMDIncoming = some (.ref tmd) ∧
    lookup (handlerCtx carrier tmd rmd ts) kIncomingMD = some (.ref rmd) := by
  constructor <;> simp [handlerCtx, withValue, lookup, List.find?, kTransportStream, kIncomingMD, kTunnelMDIncoming]

/-- **The reported channel is the channel that created the stream**, whatever
    the caller's context contained before (also a stale channel value). -/
theorem C17_channel (caller : Ctx) (tmd : Ref) (ch : Nat) :
    tunnelChannelFromContext (clientStreamCtx caller tmd ch) = some ch ∧
    lookup (clientStreamCtx caller tmd ch) kTunnelMDOutgoing = some (.ref tmd) := by
  constructor <;> simp [tunnelChannelFromContext, clientStreamCtx, withValue, lookup, List.find?, kTunnelChannel, kTunnelMDOutgoing]

theorem get_copy_old (h : Heap) (r q : Ref) (hq : q < h.length) : (h.copy r).1.get q = h.get q := by
  simp [Heap.copy, Heap.get, List.getElem?_append_left hq]

theorem get_copy_new (h : Heap) (r : Ref) (hr : r < h.length) :
    (h.copy r).1.get (h.copy r).2 = h.get r := by
  simp only [Heap.copy, Heap.get]
  rw [List.getElem?_append_right (Nat.le_refl _)]
  simp [List.getElem?_eq_getElem hr]

/-- **Private copy.** The accessor returns a reference that did not exist before
    (so nothing else — no context, no earlier result — can hold it), with the
    content of the tunnel metadata; mutating it in any way leaves every other
    object, in particular the tunnel's own metadata, unchanged; a later call of
    the accessor sees the original content. -/
theorem C17_private (k : Key) (h : Heap) (c : Ctx) (r : Ref) (hl : lookup c k = some (.ref r))
    (hr : r < h.length) (f : MDObj → MDObj) :
    let res := tunnelMDAccessor k h c
    ∃ r', res.2 = some r' ∧ r' = h.length ∧ res.1.get r' = h.get r ∧
      (∀ q, q < h.length → (res.1.mutate r' f).get q = h.get q) ∧
      ∃ r'', (tunnelMDAccessor k (res.1.mutate r' f) c).2 = some r'' ∧
        (tunnelMDAccessor k (res.1.mutate r' f) c).1.get r'' = h.get r := by
  simp only [tunnelMDAccessor, hl]
  refine ⟨h.length, rfl, rfl, ?_, ?_, ?_⟩
  · exact get_copy_new h r hr
  · intro q hq
    have : (h.copy r).1.get q = h.get q := get_copy_old h r q hq
    simp only [Heap.mutate, Heap.get, List.getElem?_mapIdx] at this ⊢
    simp only [Heap.copy] at this ⊢
    rw [List.getElem?_append_left hq] at this ⊢
    have hne : ¬ q = h.length := by omega
    cases hg : h[q]? <;> simp [hg, hne]
  · have hold : ∀ q, q < h.length → ((h.copy r).1.mutate h.length f).get q = h.get q := by
      intro q hq
      simp only [Heap.mutate, Heap.get, List.getElem?_mapIdx, Heap.copy]
      rw [List.getElem?_append_left hq]
      have hne : ¬ q = h.length := by omega
      cases hg : h[q]? <;> simp [hg, hne]
    have hlen : r < ((h.copy r).1.mutate h.length f).length := by
      have : ((h.copy r).1.mutate h.length f).length = h.length + 1 := by simp [Heap.mutate, Heap.copy]
      rw [this]; exact Nat.lt_succ_of_lt hr
    refine ⟨((h.copy r).1.mutate h.length f).length, rfl, ?_⟩
    have := get_copy_new ((h.copy r).1.mutate h.length f) r hlen
    simp only [Heap.copy] at this ⊢
    rw [this]
    exact hold r hr

-- non-vacuity: a handler context over a carrier context holding a peer value under key 9
example : lookup (handlerCtx [(9, .other 77)] 0 1 5) 9 = some (.other 77) := by decide

end Proofs.C17
