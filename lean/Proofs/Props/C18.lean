import TunnelModel.Timeout
/-!
  C18 — a grpc-timeout request header becomes exactly that handler deadline.
  Property theorems only.
-/
namespace Proofs.C18
open TunnelModel.Timeout

theorem digitsVal_eq (ds : List Nat) (acc : Nat) :
    digitsVal acc ds = if ds.all isDigit then some (ds.foldl (fun a c => a * 10 + (c - 48)) acc) else none := by
  induction ds generalizing acc with
  | nil => simp [digitsVal]
  | cons c cs ih =>
    simp only [digitsVal, List.all_cons, List.foldl_cons]
    by_cases h : isDigit c <;> simp [h, ih]

/-- value of at most 8 digits is below 10^8 (so the multiplication test in the
    code is the only place where magnitude matters) -/
theorem unitNs_pos {u ns : Nat} (h : unitNs u = some ns) : 0 < ns := by
  unfold unitNs at h
  repeat' split at h
  all_goals first | (injection h with h; omega) | exact absurd h (by simp)

/-- **C18 (main).** For every list of header values the code's result is the
    specification's: exact duration for a well-formed last value (saturating),
    no deadline for anything malformed. -/
theorem C18_parse_eq_spec (vals : List (List Nat)) : parse vals = spec vals := by
  unfold parse spec
  cases hv : vals.getLast? with
  | none => rfl
  | some s =>
    simp only
    unfold wellFormed specValue natOfDigits
    cases hu : s.getLast? with
    | none =>
      have : s = [] := by simpa using hu
      subst this; simp
    | some u =>
      have hlen : s.dropLast.length = s.length - 1 := by simp
      simp only [digitsVal_eq]
      by_cases hd : s.dropLast.all isDigit
      · simp only [hd, if_true]
        cases hn : unitNs u with
        | none => simp
        | some ns =>
          have hpos := unitNs_pos hn
          by_cases hl : s.length < 2 ∨ s.length > 9
          · have : ¬ (1 ≤ s.length - 1 ∧ s.length - 1 ≤ 8) := by omega
            simp [hl, hlen]
            omega
          · have h1 : 1 ≤ s.length - 1 := by omega
            have h2 : s.length - 1 ≤ 8 := by omega
            simp only [hl, if_false, Option.isSome_some, hlen, Bool.true_and, Option.getD_some]
            simp only [h1, h2, decide_true, Bool.true_and, if_true]
            generalize s.dropLast.foldl (fun a c => a * 10 + (c - 48)) 0 = t
            by_cases ht : t > maxDur / ns
            · have : maxDur < t * ns := by
                exact Nat.lt_mul_of_div_lt ht hpos
              simp [ht]; omega
            · have : t * ns ≤ maxDur := by
                have h := Nat.le_of_not_gt ht
                calc t * ns ≤ (maxDur / ns) * ns := Nat.mul_le_mul_right _ h
                  _ ≤ maxDur := Nat.div_mul_le_self _ _
              simp [ht]; omega
      · simp only [hd]
        by_cases hl : s.length < 2 ∨ s.length > 9 <;> simp [hl]

/-- malformed values never produce (hence never shorten) a deadline -/
theorem C18_malformed (hs : List (List Nat)) (v : List Nat) (h : wellFormed v = false) :
    parse (hs ++ [v]) = none := by
  rw [C18_parse_eq_spec]; simp [spec, h]

/-- well-formed values produce exactly the encoded duration, saturated -/
theorem C18_wellformed (hs : List (List Nat)) (v : List Nat) (h : wellFormed v = true) :
    parse (hs ++ [v]) = some (specValue v) := by
  rw [C18_parse_eq_spec]; simp [spec, h]

/-- the result never exceeds the representable range (no wrap-around) -/
theorem C18_saturates (vals : List (List Nat)) (d : Nat) (h : parse vals = some d) : d ≤ maxDur := by
  rw [C18_parse_eq_spec] at h
  unfold spec at h
  split at h
  · simp at h
  · split at h
    · injection h with h; subst h; unfold specValue; split <;> omega
    · simp at h

/-- no `grpc-timeout` header at all ⇒ no deadline is set -/
theorem C18_no_header : parse [] = none := rfl

/-- only the last `grpc-timeout` value counts: earlier values neither add nor
    remove a deadline (the code reads `vals[len(vals)-1]`) -/
theorem C18_last_wins (hs : List (List Nat)) (v : List Nat) :
    parse (hs ++ [v]) = parse [v] := by
  simp [parse]

/-- exactness below the range limit, stated without `min`: digits `ds`, unit
    `u` worth `ns` nanoseconds, product representable ⇒ exactly the product -/
theorem C18_exact (hs : List (List Nat)) (ds : List Nat) (u ns : Nat)
    (hw : wellFormed (ds ++ [u]) = true) (hu : unitNs u = some ns)
    (hfit : natOfDigits ds * ns ≤ maxDur) :
    parse (hs ++ [ds ++ [u]]) = some (natOfDigits ds * ns) := by
  rw [C18_wellformed hs _ hw]
  simp [specValue, hu, Nat.min_eq_left hfit]

/-- saturation, stated without `min`: product beyond the range ⇒ exactly the
    largest representable duration (never a wrapped, shorter one) -/
theorem C18_clamped (hs : List (List Nat)) (ds : List Nat) (u ns : Nat)
    (hw : wellFormed (ds ++ [u]) = true) (hu : unitNs u = some ns)
    (hbig : maxDur ≤ natOfDigits ds * ns) :
    parse (hs ++ [ds ++ [u]]) = some maxDur := by
  rw [C18_wellformed hs _ hw]
  simp [specValue, hu, Nat.min_eq_right hbig]

/-- the deadline is monotone in the encoded number: with the same unit, a
    numerically larger value never yields a shorter deadline (a wrap-around
    in the multiplication would break exactly this) -/
theorem C18_monotone (ds ds' : List Nat) (u : Nat)
    (h : natOfDigits ds ≤ natOfDigits ds') :
    specValue (ds ++ [u]) ≤ specValue (ds' ++ [u]) := by
  simp only [specValue, List.getLast?_append, List.getLast?_singleton, Option.some_or,
    List.dropLast_concat]
  have := Nat.mul_le_mul_right ((unitNs u).getD 0) h
  omega

-- non-vacuity: "20S" is well-formed and means 20 s; "99999999H" saturates; "-5S" is malformed
example : parse [[50, 48, 83]] = some 20000000000 := by decide
example : wellFormed [57,57,57,57,57,57,57,57,72] = true ∧
    parse [[57,57,57,57,57,57,57,57,72]] = some maxDur := by decide
example : wellFormed [45, 53, 83] = false ∧ parse [[45, 53, 83]] = none := by decide
-- C18_exact / C18_clamped premises are satisfiable: "20S" fits, "99999999H" does not
example : wellFormed ([50, 48] ++ [83]) = true ∧ unitNs 83 = some 1000000000 ∧
    natOfDigits [50, 48] * 1000000000 ≤ maxDur := by decide
example : wellFormed ([57,57,57,57,57,57,57,57] ++ [72]) = true ∧ unitNs 72 = some 3600000000000 ∧
    maxDur ≤ natOfDigits [57,57,57,57,57,57,57,57] * 3600000000000 := by decide

end Proofs.C18
