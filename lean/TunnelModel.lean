import TunnelModel.Timeout
import TunnelModel.Framing
import TunnelModel.Negotiate
import TunnelModel.Method
import TunnelModel.IdRules
import TunnelModel.RoundRobin
import TunnelModel.FlowStep
