/-
  Closed frame-granularity model of a whole tunnel: MANY half-streams, BOTH
  directions, BOUNDED carriers.

  Endpoints A and B are joined by two FIFO channels, `ab` (A→B) and `ba`
  (B→A), each holding at most `K` frames (a carrier `Send` blocks while the
  channel is full).  Every RPC stream consists of two independent
  half-streams: an `up` half-stream sends its data on `ab` and receives its
  window updates ("credit") on `ba`; a `down` half-stream sends data on `ba`
  and receives credit on `ab`.

  Goroutines and their actions (one action = one frame moved):

  * `send i`   — the sending application inside `SendMsg`: needs a positive
                 window, a message in progress and ROOM on the data carrier.
  * `loopB`    — B's receive loop: pops the head of `ab`; `loopA` pops the head
                 of `ba`.  A receive loop NEVER sends and never waits for an
                 application: the step is enabled whenever its carrier is
                 non-empty.
  * `read i`   — the receiving application inside `RecvMsg` (only if `willing`):
                 takes one chunk out of the queue; the bytes become a pending
                 window update.
  * `credit i` — the same application goroutine puts the window update on the
                 credit carrier (needs ROOM); until then it cannot read again.

  `FlowStep.lean` models one half-stream over unbounded wires at atomic-action
  granularity; this model is coarser per half-stream but closed over all of them.
-/
namespace TunnelModel.Closed

inductive Dir where
  | up      -- data on `ab`, credit on `ba`
  | down    -- data on `ba`, credit on `ab`
  deriving DecidableEq, Repr

inductive Frame where
  | data (i k : Nat)      -- `k` payload bytes of half-stream `i` (k = 0: empty message)
  | credit (i k : Nat)    -- window update of `k` bytes for half-stream `i`
  deriving DecidableEq, Repr

inductive Act where
  | send (i : Nat)
  | read (i : Nat)
  | credit (i : Nat)
  | loopA               -- A's receive loop: consumes `ba`
  | loopB               -- B's receive loop: consumes `ab`
  deriving DecidableEq, Repr

structure Half where
  dir : Dir
  willing : Bool          -- the receiving application keeps reading; false = stalled forever
  todo : List Nat         -- head: bytes of the current message still to send; tail: messages not yet started
  win : Nat               -- sender's window
  queue : List Nat        -- chunks accepted by the receive loop, not yet read
  pending : Nat           -- bytes read whose window update has not been put on the carrier yet
  sent : Nat              -- ghost: bytes put on the wire
  delivered : Nat         -- ghost: bytes read by the application
  deriving DecidableEq, Repr

structure St where
  halves : List Half      -- index = half-stream id
  ab : List Frame         -- A→B carrier, head = oldest
  ba : List Frame         -- B→A carrier
  deriving DecidableEq, Repr

def Half.init (W : Nat) (c : Dir × Bool × List Nat) : Half :=
  { dir := c.1, willing := c.2.1, todo := c.2.2, win := W, queue := [], pending := 0,
    sent := 0, delivered := 0 }

/-- configuration of one half-stream: direction, is the reader willing, message sizes -/
def init (W : Nat) (cfg : List (Dir × Bool × List Nat)) : St :=
  { halves := cfg.map (Half.init W), ab := [], ba := [] }

/-- bytes not yet put on the wire -/
def Half.remaining (h : Half) : Nat := h.todo.sum

/-- the sender cuts the next chunk: `some (k, h')`, or `none` when it has
    nothing to send or its window is exhausted.  A zero-length message gives
    one chunk of 0 bytes (and still needs a positive window). -/
def Half.chunk (cm : Nat) (h : Half) : Option (Nat × Half) :=
  match h.todo with
  | [] => none
  | rem :: rest =>
    if h.win = 0 then none
    else
      let k := min (min h.win rem) cm
      some (k, { h with win := h.win - k, sent := h.sent + k,
                        todo := if k = rem then rest else (rem - k) :: rest })

/-- the application takes one chunk (only if willing and not blocked sending a window update) -/
def Half.read (h : Half) : Option Half :=
  if h.willing = true ∧ h.pending = 0 then
    match h.queue with
    | [] => none
    | k :: q => some { h with queue := q, delivered := h.delivered + k, pending := k }
  else none

/-- apply `f` to half-stream `i` (nothing happens if it does not exist) -/
def upd (hs : List Half) (i : Nat) (f : Half → Half) : List Half :=
  match hs[i]? with
  | none => hs
  | some h => hs.set i (f h)

/-- what a receive loop does with one frame: it only touches memory -/
def deliver (hs : List Half) : Frame → List Half
  | .data i k => upd hs i (fun h => { h with queue := h.queue ++ [k] })
  | .credit i k => upd hs i (fun h => { h with win := h.win + k })

/-- `step K cm s a = none` iff `a` is not enabled in `s`; `K` = carrier capacity, `cm` = chunk maximum -/
def step (K cm : Nat) (s : St) : Act → Option St
  | .send i =>
    match s.halves[i]? with
    | none => none
    | some h =>
      match h.chunk cm with
      | none => none
      | some (k, h') =>
        match h.dir with
        | .up =>
          if s.ab.length < K then some { s with halves := s.halves.set i h', ab := s.ab ++ [.data i k] }
          else none
        | .down =>
          if s.ba.length < K then some { s with halves := s.halves.set i h', ba := s.ba ++ [.data i k] }
          else none
  | .read i =>
    match s.halves[i]? with
    | none => none
    | some h =>
      match h.read with
      | none => none
      | some h' => some { s with halves := s.halves.set i h' }
  | .credit i =>
    match s.halves[i]? with
    | none => none
    | some h =>
      if h.pending = 0 then none
      else
        match h.dir with
        | .up =>
          if s.ba.length < K then
            some { s with halves := s.halves.set i { h with pending := 0 }, ba := s.ba ++ [.credit i h.pending] }
          else none
        | .down =>
          if s.ab.length < K then
            some { s with halves := s.halves.set i { h with pending := 0 }, ab := s.ab ++ [.credit i h.pending] }
          else none
  | .loopB =>
    match s.ab with
    | [] => none
    | f :: rest => some { s with halves := deliver s.halves f, ab := rest }
  | .loopA =>
    match s.ba with
    | [] => none
    | f :: rest => some { s with halves := deliver s.halves f, ba := rest }

/-- run a schedule; `none` if some action was not enabled -/
def run (K cm : Nat) : St → List Act → Option St
  | s, [] => some s
  | s, a :: as =>
    match step K cm s a with
    | none => none
    | some s' => run K cm s' as

/-! ### a deterministic scheduler -/

/-- every action that can possibly be enabled when there are `n` half-streams -/
def allActs : Nat → List Act
  | 0 => [.loopA, .loopB]
  | n + 1 => .send n :: .read n :: .credit n :: allActs n

def firstEnabled (K cm : Nat) (s : St) : List Act → Option (Act × St)
  | [] => none
  | a :: as =>
    match step K cm s a with
    | some s' => some (a, s')
    | none => firstEnabled K cm s as

/-- the enabled actions among `allActs` -/
def enabledActs (K cm : Nat) (s : St) : List Act :=
  (allActs s.halves.length).filter (fun a => (step K cm s a).isSome)

/-- repeatedly take the first enabled action of the fixed enumeration -/
def runToEnd (K cm : Nat) : Nat → St → St
  | 0, s => s
  | fuel + 1, s =>
    match firstEnabled K cm s (allActs s.halves.length) with
    | none => s
    | some (_, s') => runToEnd K cm fuel s'

/-- the schedule `runToEnd` follows -/
def traceToEnd (K cm : Nat) : Nat → St → List Act
  | 0, _ => []
  | fuel + 1, s =>
    match firstEnabled K cm s (allActs s.halves.length) with
    | none => []
    | some (a, s') => a :: traceToEnd K cm fuel s'

/-- per half-stream `(sent, delivered, queue.sum, remaining bytes)` -/
def summary (s : St) : List (Nat × Nat × Nat × Nat) :=
  s.halves.map (fun h => (h.sent, h.delivered, h.queue.sum, h.remaining))

/-- enough fuel for `runToEnd` from `init W cfg` (see `Proofs.Closed.terminates`) -/
def workBound (cfg : List (Dir × Bool × List Nat)) : Nat :=
  5 * (cfg.map (fun c => c.2.2.sum + c.2.2.length)).sum

/-- the outcome of every maximal execution, in closed form (see `Proofs.Closed.outcome_closed_form`) -/
def expected (W : Nat) (cfg : List (Dir × Bool × List Nat)) : List (Nat × Nat × Nat × Nat) :=
  cfg.map (fun c =>
    if c.2.1 = true then (c.2.2.sum, c.2.2.sum, 0, 0)
    else (min c.2.2.sum W, 0, min c.2.2.sum W, c.2.2.sum - min c.2.2.sum W))

/-! ### the counter-model: a receive loop that sends

  Identical except that the receive loop acknowledges a data frame itself: on
  popping `data i k` (k > 0) it must put `credit i k` on the opposite carrier
  before it returns to `Recv` — so `loopB` needs room on `ba` and `loopA`
  needs room on `ab`; `read` then leaves nothing pending. -/
namespace Faulty

def step (K cm : Nat) (s : St) : Act → Option St
  | .loopB =>
    match s.ab with
    | [] => none
    | .data i k :: rest =>
      if k = 0 then some { s with halves := deliver s.halves (.data i k), ab := rest }
      else if s.ba.length < K then
        some { halves := deliver s.halves (.data i k), ab := rest, ba := s.ba ++ [.credit i k] }
      else none
    | f :: rest => some { s with halves := deliver s.halves f, ab := rest }
  | .loopA =>
    match s.ba with
    | [] => none
    | .data i k :: rest =>
      if k = 0 then some { s with halves := deliver s.halves (.data i k), ba := rest }
      else if s.ab.length < K then
        some { halves := deliver s.halves (.data i k), ba := rest, ab := s.ab ++ [.credit i k] }
      else none
    | f :: rest => some { s with halves := deliver s.halves f, ba := rest }
  | .read i =>
    match s.halves[i]? with
    | none => none
    | some h =>
      match h.read with
      | none => none
      | some h' => some { s with halves := s.halves.set i { h' with pending := 0 } }
  | a => Closed.step K cm s a

def run (K cm : Nat) : St → List Act → Option St
  | s, [] => some s
  | s, a :: as =>
    match step K cm s a with
    | none => none
    | some s' => run K cm s' as

def enabledActs (K cm : Nat) (s : St) : List Act :=
  (allActs s.halves.length).filter (fun a => (step K cm s a).isSome)

end Faulty

end TunnelModel.Closed
