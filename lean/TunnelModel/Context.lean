/-
  Contexts and metadata identity (tunnel_metadata.go; tunnel_server.go `serve`
  / `createStream`; tunnel_client.go `allocateStream`).

  A context is a stack of key/value bindings (innermost first); metadata
  objects live in a heap so that aliasing — and therefore what "a private
  copy" means — is expressible.
-/
namespace TunnelModel.Context

abbrev Key := Nat
abbrev Ref := Nat                       -- reference to a metadata object (index into the heap)
abbrev MDObj := List (Nat × List Nat)   -- a metadata object

inductive Val where
  | ref (r : Ref)        -- a metadata object
  | chan (c : Nat)       -- a tunnel channel (identity)
  | other (v : Nat)      -- anything the opening call's interceptors / peer put there
  deriving DecidableEq, Repr

abbrev Ctx := List (Key × Val)

def lookup (c : Ctx) (k : Key) : Option Val := (c.find? (·.1 == k)).map (·.2)
def withValue (c : Ctx) (k : Key) (v : Val) : Ctx := (k, v) :: c

-- the package's private keys
def kTunnelMDIncoming : Key := 1      -- tunnelMetadataIncomingContextKey
def kTunnelMDOutgoing : Key := 2      -- tunnelMetadataOutgoingContextKey
def kTunnelChannel : Key := 3         -- tunnelChannelContextKey
def kIncomingMD : Key := 4            -- grpc metadata incoming key (request metadata of THIS RPC)
def kTransportStream : Key := 5       -- grpc server transport stream key

abbrev Heap := List MDObj

def Heap.get (h : Heap) (r : Ref) : Option MDObj := h[r]?
/-- `md.Copy()`: a fresh object with the same content -/
def Heap.copy (h : Heap) (r : Ref) : Heap × Ref := (h ++ [(h.get r).getD []], h.length)
/-- any in-place mutation of the object behind `r` -/
def Heap.mutate (h : Heap) (r : Ref) (f : MDObj → MDObj) : Heap :=
  h.mapIdx (fun i o => if i = r then f o else o)

/-- the context of a tunnelled handler: the carrier stream's context (peer,
    interceptor values, …) plus the tunnel's opening metadata, this RPC's
    request metadata, and the transport stream -/
def handlerCtx (carrier : Ctx) (tunnelMD reqMD : Ref) (ts : Nat) : Ctx :=
  withValue (withValue (withValue carrier kTunnelMDIncoming (.ref tunnelMD)) kIncomingMD (.ref reqMD)) kTransportStream (.other ts)

/-- the context of a client stream: the caller's context plus the tunnel's
    opening metadata and the channel that carries the RPC -/
def clientStreamCtx (caller : Ctx) (tunnelMD : Ref) (ch : Nat) : Ctx :=
  withValue (withValue caller kTunnelMDOutgoing (.ref tunnelMD)) kTunnelChannel (.chan ch)

/-- `TunnelMetadataFromIncomingContext` / `…FromOutgoingContext`: look the object up, return a COPY -/
def tunnelMDAccessor (k : Key) (h : Heap) (c : Ctx) : Heap × Option Ref :=
  match lookup c k with
  | some (.ref r) => let (h', r') := h.copy r; (h', some r')
  | _ => (h, none)

/-- `TunnelChannelFromContext` -/
def tunnelChannelFromContext (c : Ctx) : Option Nat :=
  match lookup c kTunnelChannel with
  | some (.chan ch) => some ch
  | _ => none

end TunnelModel.Context
