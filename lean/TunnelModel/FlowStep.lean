/-
  L-atomic model of flow control on one stream, one direction
  (flow_control.go): the sender goroutine inside `defaultSender.send`, the
  peer's receive loop calling `updateWindow`, the carrier in both directions,
  the receive loop calling `defaultReceiver.accept`, and the application
  goroutine inside `defaultReceiver.dequeue` followed by the credit callback.

  One action = one atomic operation of the code (an atomic load / CAS / add,
  a channel operation, or one mutex-protected critical section).  Payload bytes
  are irrelevant here; frames are their sizes.  Ghost counters (`sent`,
  `credited`, `dequeued`, `granted`) record history for the C06 statements.
-/
namespace TunnelModel.FlowStep

/-- program counter of the goroutine executing `send` -/
inductive SPc where
  | idle                 -- top of the `for` loop (or between two `send` calls)
  | loaded (w : Nat)     -- after `windowSz := currentWindow.Load()`
  | parked               -- inside the `select` on windowUpdates / ctx.Done
  | reserved (k : Nat)   -- CAS succeeded for a chunk of `k` bytes, before `sendFunc`
  | failed               -- `send` returned ctx.Err()
  deriving DecidableEq, Repr

/-- the receive loop inside `updateWindow` -/
inductive UPc where
  | idle
  | added (prev : Nat)   -- after `Add`, before the non-blocking signal
  deriving DecidableEq, Repr

/-- the application goroutine inside `dequeue` / the credit callback -/
inductive RPc where
  | idle
  | waiting              -- in `cond.Wait()` (queue empty, open)
  | woken                -- signalled, about to re-check the queue
  | credit (k : Nat)     -- dequeued `k > 0` bytes, about to call `updateWindow(k)` (sends a window_update frame)
  deriving DecidableEq, Repr

structure St where
  -- sender side
  win : Nat                -- `currentWindow`
  token : Bool             -- an element is buffered in `windowUpdates`
  spc : SPc
  cur : Option Nat         -- bytes of the current message still to be sent
  todo : List Nat          -- sizes of the messages not yet started
  upc : UPc
  -- carrier
  dataWire : List Nat      -- data frames in flight towards the receiver (sizes)
  creditWire : List Nat    -- window_update frames in flight towards the sender
  -- receiver side
  rwin : Nat               -- `defaultReceiver.currentWindow`
  queue : List Nat         -- `items` (sizes)
  rpc : RPc
  overrun : Bool           -- `accept` returned errFlowControlWindowExceeded
  cancelled : Bool         -- the stream context ended
  -- ghost history
  sent : Nat               -- bytes handed to `sendFunc`
  credited : Nat           -- credit added by `updateWindow`
  dequeued : Nat           -- bytes the application took out of the queue
  granted : Nat            -- credit put on the wire by the receiver
  deriving DecidableEq, Repr

def init (W : Nat) (msgs : List Nat) : St :=
  { win := W, token := false, spc := .idle, cur := none, todo := msgs, upc := .idle,
    dataWire := [], creditWire := [], rwin := W, queue := [], rpc := .idle,
    overrun := false, cancelled := false, sent := 0, credited := 0, dequeued := 0, granted := 0 }

inductive Act where
  | sLoad | sPark | sWake | sFail | sCas | sEmit
  | uAdd | uSignal
  | deliver
  | rStart | rResume | rCredit
  | cancel
  deriving DecidableEq, Repr

/-- the body shared by `rStart` and `rResume`: one pass of the `for` loop in `dequeue` -/
def popOrWait (s : St) : St :=
  match s.queue with
  | k :: q =>
    { s with queue := q, rwin := s.rwin + k, dequeued := s.dequeued + k,
             rpc := if k > 0 then .credit k else .idle }
  | [] => { s with rpc := .waiting }

/-- `step cm s a = none` iff `a` is not enabled in `s`; `cm` = chunkMax -/
def step (cm : Nat) (s : St) : Act → Option St
  | .sLoad =>
    match s.spc with
    | .idle =>
      match s.cur, s.todo with
      | some _, _ => some { s with spc := .loaded s.win }
      | none, m :: rest => some { s with cur := some m, todo := rest, spc := .loaded s.win }
      | none, [] => none
    | _ => none
  | .sPark =>
    match s.spc with
    | .loaded 0 => some { s with spc := .parked }
    | _ => none
  | .sWake =>
    match s.spc with
    | .parked => if s.token then some { s with token := false, spc := .idle } else none
    | _ => none
  | .sFail =>
    match s.spc with
    | .parked => if s.cancelled then some { s with spc := .failed } else none
    | _ => none
  | .sCas =>
    match s.spc, s.cur with
    | .loaded w, some rem =>
      if w = 0 then none
      else
        let k := min (min w rem) cm
        if s.win = w then some { s with win := w - k, spc := .reserved k }
        else some { s with spc := .idle }
    | _, _ => none
  | .sEmit =>
    match s.spc, s.cur with
    | .reserved k, some rem =>
      some { s with dataWire := s.dataWire ++ [k], sent := s.sent + k, spc := .idle,
                    cur := if k = rem then none else some (rem - k) }
    | _, _ => none
  | .uAdd =>
    match s.upc, s.creditWire with
    | .idle, n :: rest =>
      some { s with win := s.win + n, credited := s.credited + n, upc := .added s.win, creditWire := rest }
    | _, _ => none
  | .uSignal =>
    match s.upc with
    | .added prev => some { s with token := if prev = 0 then true else s.token, upc := .idle }
    | .idle => none
  | .deliver =>
    match s.dataWire with
    | k :: rest =>
      if k > s.rwin then some { s with dataWire := rest, overrun := true }
      else
        some { s with dataWire := rest, rwin := s.rwin - k, queue := s.queue ++ [k],
                      rpc := if s.queue = [] ∧ s.rpc = .waiting then .woken else s.rpc }
    | [] => none
  | .rStart =>
    match s.rpc with
    | .idle => some (popOrWait s)
    | _ => none
  | .rResume =>
    match s.rpc with
    | .woken => some (popOrWait s)
    | _ => none
  | .rCredit =>
    match s.rpc with
    | .credit k => some { s with creditWire := s.creditWire ++ [k], granted := s.granted + k, rpc := .idle }
    | _ => none
  | .cancel => if s.cancelled then none else some { s with cancelled := true }

/-- run a schedule; `none` if some action was not enabled -/
def run (cm : Nat) : St → List Act → Option St
  | s, [] => some s
  | s, a :: as => match step cm s a with
    | none => none
    | some s' => run cm s' as

def SPc.reserve : SPc → Nat
  | .reserved k => k
  | _ => 0

def RPc.pendingCredit : RPc → Nat
  | .credit k => k
  | _ => 0

/-- bytes the sender still has to hand to `sendFunc` -/
def St.remaining (s : St) : Nat := s.cur.getD 0 + s.todo.sum

/-- everything has been sent, delivered, consumed and credited back -/
def St.final (s : St) : Bool :=
  s.cur.isNone && s.todo.isEmpty && s.spc == .idle && s.dataWire.isEmpty && s.queue.isEmpty &&
  s.creditWire.isEmpty && s.upc == .idle && (s.rpc == .idle || s.rpc == .waiting)

end TunnelModel.FlowStep

/-! ### the receiver alone, against an arbitrary (possibly hostile) sender

  `defaultReceiver` as a sequential object: `accept`, `close`, `cancel`,
  `dequeue` (flow_control.go:150-221).  Used for the receiver-side statements of
  C06/C09 and as a component of the frame-level stream models. -/
namespace TunnelModel.FlowStep

structure Rcv where
  rwin : Nat
  queue : List Nat
  closed : Bool
  cancelled : Bool
  deriving DecidableEq, Repr

def Rcv.init (W : Nat) : Rcv := { rwin := W, queue := [], closed := false, cancelled := false }

inductive AcceptOut where
  | ok | dropped | windowExceeded
  deriving DecidableEq, Repr

/-- `accept`: dropped when closed; refused when larger than the remaining window -/
def Rcv.accept (r : Rcv) (k : Nat) : Rcv × AcceptOut :=
  if r.closed then (r, .dropped)
  else if k > r.rwin then (r, .windowExceeded)
  else ({ r with rwin := r.rwin - k, queue := r.queue ++ [k] }, .ok)

def Rcv.close (r : Rcv) : Rcv := { r with closed := true }
def Rcv.cancel (r : Rcv) : Rcv := { r with cancelled := true, queue := [] }

inductive DequeueOut where
  | item (k : Nat)   -- returned with `ok = true`; credit `k` is returned if `k > 0`
  | ended            -- `ok = false` (cancelled, or closed and empty)
  | wouldBlock       -- `cond.Wait()`
  deriving DecidableEq, Repr

def Rcv.dequeue (r : Rcv) : Rcv × DequeueOut :=
  if r.cancelled then (r, .ended)
  else match r.queue with
    | k :: q => ({ r with queue := q, rwin := r.rwin + k }, .item k)
    | [] => if r.closed then (r, .ended) else (r, .wouldBlock)

inductive RAct where
  | accept (k : Nat) | close | cancel | dequeue
  deriving DecidableEq, Repr

def Rcv.step (r : Rcv) : RAct → Rcv
  | .accept k => (r.accept k).1
  | .close => r.close
  | .cancel => r.cancel
  | .dequeue => r.dequeue.1

end TunnelModel.FlowStep
