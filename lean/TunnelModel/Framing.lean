/-
  Message framing: the chunking done by `defaultSender.send` /
  `noFlowControlSender.send` (flow_control.go) and the reassembly done by
  `readMsgLocked` (tunnel_client.go, tunnel_server.go).  Pure, payload type
  arbitrary (`α`): the code never looks inside the bytes.
-/
namespace TunnelModel.Framing

/-- a data-carrying frame as the reader sees it in a stream's receive queue;
    `other` is any frame kind the reader does not recognise -/
inductive DFrame (α : Type) where
  | env (size : Nat) (data : List α)   -- request_message / response_message
  | more (data : List α)               -- more_request_data / more_response_data
  | other
  deriving Repr, DecidableEq

/-- bytes that count against the flow-control window (the `measure` closures) -/
def DFrame.size {α} : DFrame α → Nat
  | .env _ d => d.length
  | .more d => d.length
  | .other => 0

/-- the four ways reassembly fails (same order as in `readMsgLocked`) -/
inductive PErr where
  | envBeforeDone      -- "envelope before previous message finished"
  | moreThanDeclared   -- "more data than indicated by envelope"
  | noEnvelope         -- "never received envelope"
  | unrecognized       -- "unrecognized frame type"
  deriving Repr, DecidableEq

/-- reader state between two frames: `none` = `msgLen == -1`,
    `some (n, b)` = envelope said `n`, `b` collected so far -/
abbrev RState (α : Type) := Option (Nat × List α)

inductive PStep (α : Type) where
  | cont (st : RState α)
  | msg (m : List α)
  | err (e : PErr)
  deriving Repr, DecidableEq

/-- one iteration of the `switch` in `readMsgLocked` -/
def parseStep {α} : RState α → DFrame α → PStep α
  | none, .env size d =>
      if d.length > size then .err .moreThanDeclared
      else if d.length = size then .msg d
      else .cont (some (size, d))
  | some _, .env _ _ => .err .envBeforeDone
  | none, .more _ => .err .noEnvelope
  | some (n, b), .more d =>
      if (b ++ d).length > n then .err .moreThanDeclared
      else if (b ++ d).length = n then .msg (b ++ d)
      else .cont (some (n, b ++ d))
  | _, .other => .err .unrecognized

/-- result of running the reader over a whole list of frames: the complete
    messages, in order, and how it stopped -/
structure Parsed (α : Type) where
  msgs : List (List α)
  rest : Except PErr (RState α)

/-- iterate `parseStep` from state `st` (a fresh read call starts from `none`
    after each completed message) -/
def parse {α} : RState α → List (DFrame α) → List (List α) × Except PErr (RState α)
  | st, [] => ([], .ok st)
  | st, f :: fs =>
    match parseStep st f with
    | .cont st' => parse st' fs
    | .msg m => let (ms, r) := parse none fs; (m :: ms, r)
    | .err e => ([], .error e)

/-! ### the sender -/

/-- what is left of the message being sent: the loop variables `data`, `size`,
    `first` of `send` -/
structure Snd (α : Type) where
  rem : List α
  total : Nat
  first : Bool
  deriving Repr, DecidableEq

def Snd.start {α} (m : List α) : Snd α := { rem := m, total := m.length, first := true }

/-- `chunkSz` as computed in `defaultSender.send` from the loaded window -/
def chunkSz (chunkMax win remaining : Nat) : Nat := min (min win remaining) chunkMax

/-- one `sendFunc` call with chunk size `k`: the frame, and the loop state
    afterwards (`none` = `last`, the send returns) -/
def emitChunk {α} (k : Nat) (s : Snd α) : DFrame α × Option (Snd α) :=
  let piece := s.rem.take k
  let f := if s.first then DFrame.env s.total piece else DFrame.more piece
  if k = s.rem.length then (f, none)
  else (f, some { rem := s.rem.drop k, total := s.total, first := false })

/-- revision zero: all pieces at once (`noFlowControlSender.send`); fuel = number
    of iterations, `rem.length + 1` always suffices -/
def sendAllFuel {α} (chunkMax : Nat) : Nat → Snd α → List (DFrame α)
  | 0, _ => []
  | fuel + 1, s =>
    match emitChunk (min chunkMax s.rem.length) s with
    | (f, none) => [f]
    | (f, some s') => f :: sendAllFuel chunkMax fuel s'

def sendAll {α} (chunkMax : Nat) (m : List α) : List (DFrame α) :=
  sendAllFuel chunkMax (m.length + 1) (Snd.start m)

/-- flow control: emit chunks while the window is positive
    (`defaultSender.send` between two waits); returns frames, remaining window
    and remaining sender state -/
def pumpFuel {α} (chunkMax : Nat) : Nat → Nat → Snd α → List (DFrame α) × Nat × Option (Snd α)
  | 0, win, s => ([], win, some s)
  | fuel + 1, win, s =>
    if win = 0 then ([], win, some s)
    else
      let k := chunkSz chunkMax win s.rem.length
      match emitChunk k s with
      | (f, none) => ([f], win - k, none)
      | (f, some s') =>
        let (fs, w, r) := pumpFuel chunkMax fuel (win - k) s'
        (f :: fs, w, r)

def pump {α} (chunkMax win : Nat) (s : Snd α) : List (DFrame α) × Nat × Option (Snd α) :=
  pumpFuel chunkMax (s.rem.length + 1) win s

end TunnelModel.Framing
