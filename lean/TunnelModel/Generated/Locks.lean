namespace TunnelModel.Generated
end TunnelModel.Generated
