/-
  L-atomic model of stream-id allocation on a tunnel channel
  (tunnel_client.go, `newStream` / `allocateStream`): any number of goroutines
  start RPCs concurrently.  Each one

    1. locks `streamCreation`                                   (`lock g`)
    2. inside `allocateStream`, under `mu`: `lastStreamID++`    (`alloc g ok`)
       and either keeps the id or fails (credentials, closed
       channel ...) after the increment                         (`ok = false`)
    3. sends the `new_stream` frame on the carrier              (`send g`)
    4. unlocks `streamCreation` (deferred)                      (`unlock g`)

  One action = one critical section / one carrier `Send`.  `guarded = false`
  is the FAULTY variant in which `streamCreation` does not exclude (the lock
  narrowed to the allocation): it exists only for the counter-example.
-/
namespace TunnelModel.IdAlloc

inductive Pc where
  | start
  | locked
  | allocated (id : Nat)
  | sent (id : Nat)
  | done
  deriving DecidableEq, Repr

structure St where
  pcs : List Pc            -- one program counter per goroutine
  holder : Option Nat      -- goroutine holding `streamCreation`
  last : Nat               -- `lastStreamID`
  wire : List Nat          -- ids of the `new_stream` frames, in wire order
  deriving DecidableEq, Repr

def init (n : Nat) : St := { pcs := List.replicate n .start, holder := none, last := 0, wire := [] }

inductive Act where
  | lock (g : Nat)
  | alloc (g : Nat) (ok : Bool)
  | send (g : Nat)
  | unlock (g : Nat)
  deriving DecidableEq, Repr

/-- `none` = the action is not enabled -/
def step (guarded : Bool) (s : St) : Act → Option St
  | .lock g =>
    match s.pcs[g]? with
    | some .start =>
      if guarded && s.holder.isSome then none
      else some { s with pcs := s.pcs.set g .locked, holder := some g }
    | _ => none
  | .alloc g ok =>
    match s.pcs[g]? with
    | some .locked =>
      some { s with last := s.last + 1,
                    pcs := s.pcs.set g (if ok then .allocated (s.last + 1) else .sent 0) }
    | _ => none
  | .send g =>
    match s.pcs[g]? with
    | some (.allocated id) => some { s with wire := s.wire ++ [id], pcs := s.pcs.set g (.sent id) }
    | _ => none
  | .unlock g =>
    match s.pcs[g]? with
    | some (.sent _) => some { s with pcs := s.pcs.set g .done, holder := if s.holder = some g then none else s.holder }
    | _ => none

def run (guarded : Bool) (s : St) : List Act → Option St
  | [] => some s
  | a :: as => match step guarded s a with
    | some s' => run guarded s' as
    | none => none

/-- strictly increasing -/
def increasing : List Nat → Bool
  | a :: b :: r => a < b && increasing (b :: r)
  | _ => true

end TunnelModel.IdAlloc
