/-
  Stream-id rules of the two receive loops:
  server `createStream` / `getStream` (tunnel_server.go) and client
  `getStream` (tunnel_client.go), and the client's allocation
  (`allocateStream`).
-/
namespace TunnelModel.IdRules

inductive Class where
  | accept        -- new stream is created / frame is routed to the live stream
  | ignore        -- frame for a disposed stream: dropped
  | tunnelError   -- protocol error: the tunnel is aborted
  deriving DecidableEq, Repr

/-- server, `new_stream` frame (after the two stream-level refusals, which do
    not depend on the id): -/
def serverNew (table : List Int) (lastSeen : Int) (id : Int) : Class :=
  if table.contains id then .tunnelError
  else if id ≤ lastSeen then .tunnelError
  else .accept

/-- server, any other frame -/
def serverOther (table : List Int) (lastSeen : Int) (id : Int) : Class :=
  if table.contains id then .accept
  else if id ≤ lastSeen then .ignore
  else .tunnelError

/-- client, any frame after the settings phase -/
def clientFrame (table : List Int) (streamCreated : Bool) (lastStreamID : Int) (id : Int) : Class :=
  if table.contains id then .accept
  else if streamCreated && decide (id ≤ lastStreamID) then .ignore
  else .tunnelError

/-- client id allocation: `none` = "all stream IDs exhausted"
    (`lastStreamID < 0` after wrap-around of the int64 counter) -/
def maxInt64 : Int := 9223372036854775807
def wrap64 (x : Int) : Int := if x > maxInt64 then x - 18446744073709551616 else x

def allocate (lastStreamID : Int) : Option Int :=
  if lastStreamID < 0 then none else some (wrap64 (lastStreamID + 1))

end TunnelModel.IdRules
