import TunnelModel.LFrame.Server
import TunnelModel.LFrame.Client
/-!
  Goroutine census of the endpoint models (C14).  The library starts, per RPC,
  one handler goroutine (`go str.serveStream`) and one context watcher on the
  server, one context watcher on the client, and one receive loop per channel
  (`go c.recvLoop()`); every other `go` statement only performs one carrier
  `Send`.  The handler goroutine lives until the handler has returned, a
  watcher until its stream context has ended, the receive loop until the
  channel has finished.
-/
namespace TunnelModel.LFrame

variable {α : Type}

/-- goroutines a server stream object keeps alive: its handler and its context watcher -/
def sGoroutines (s : SStream α) : Nat :=
  (if s.hstatus == .returned then 0 else 1) + (if s.ctxDone.isSome then 0 else 1)

def srvCensus (s : Srv α) : Nat := (s.streams.map (fun e => sGoroutines e.2)).sum

/-- goroutines a client stream keeps alive: its context watcher -/
def cGoroutines (s : CStream α) : Nat := if s.ctxDone.isSome then 0 else 1

/-- the receive loop of the channel and the context watchers of its streams -/
def cliCensus (c : Cli α) : Nat :=
  (if c.finished.isSome then 0 else 1) + (c.streams.map (fun e => cGoroutines e.2)).sum

def srvHandlers (s : Srv α) : Nat := (s.streams.filter (fun e => e.2.hstatus != .returned)).length
def srvWatchers (s : Srv α) : Nat := (s.streams.filter (fun e => e.2.ctxDone.isNone)).length
def cliWatchers (c : Cli α) : Nat := (c.streams.filter (fun e => e.2.ctxDone.isNone)).length

end TunnelModel.LFrame
