import TunnelModel.LFrame.Common
import TunnelModel.Negotiate
import TunnelModel.IdRules
/-
  L-frame model of the tunnel client endpoint (tunnel_client.go):
  `newTunnelChannel` + `recvLoop` (settings negotiation, demultiplexing),
  `newStream`/`allocateStream`, and the per-stream client half (`SendMsg`,
  `RecvMsg`, `CloseSend`, `Header`, `Trailer`, `acceptServerFrame`,
  `finishStream`, `cancelStream`, the context watcher), and `close`.

  Open system: stimuli are application calls, incoming frames (arbitrary, from
  any peer), the clock, the carrier ending, `Close`; outputs are emitted
  frames, completions of calls, and events.
-/
namespace TunnelModel.LFrame
open TunnelModel.Framing

structure CCfg where
  W : Nat := 65536                 -- receive window advertised in new_stream (`initialWindowSize`)
  chunkMax : Nat := 16384
  awaitSettings : Bool := true     -- `serverSendsSettings`
  revs : List Int := [0, 1]        -- the client's `supportedRevisions()`

structure CStream (α : Type) where
  cs : Bool
  ss : Bool
  fc : Bool
  ctxDone : Option CtxErr := none
  deadline : Option Nat := none
  rcv : RcvQ α
  done : Option SErr := none           -- the terminal result (`done`, written once)
  gotHeaders : Bool := false
  headers : MD := []
  trailers : MD := []
  doneSignal : Bool := false
  readErr : Option SErr := none
  pread : Option (PRead α) := none
  pheader : Bool := false              -- a `Header()` call is blocked
  win : Nat
  psend : Option (Snd α) := none
  numSent : Nat := 0
  halfClosed : Bool := false
  inTable : Bool := true
  unsupported : Bool := false
  deriving Repr

/-- outputs of a client step -/
structure COut (α : Type) where
  frames : List (Sid × C2S α) := []
  dones : List (Sid × String × Res α) := []
  events : List String := []
  deriving Repr

def COut.add {α} (a b : COut α) : COut α :=
  { frames := a.frames ++ b.frames, dones := a.dones ++ b.dones, events := a.events ++ b.events }

/-- the error mapping at the top of the client's `finishStream` -/
def mapFinishErr : Option SErr → SErr
  | none => .eof
  | some (.ctx .deadline) => .status (mkStatus codeDeadlineExceeded "context deadline exceeded")
  | some (.ctx .canceled) => .status (mkStatus codeCanceled "context canceled")
  | some e => e

def cperrStatus : PErr → SErr
  | .envBeforeDone => .status (mkStatus codeInternal "server sent response message envelope before previous message finished")
  | .moreThanDeclared => .status (mkStatus codeInternal "server sent more data than indicated by response message envelope")
  | .noEnvelope => .status (mkStatus codeInternal "server never sent envelope for response message")
  | .unrecognized => .status (mkStatus codeInternal "unrecognized frame type")

def dframeToC2S {α} : DFrame α → C2S α
  | .env size d => .msg size d
  | .more d => .more d
  | .other => .unset

/-- the stream context ends; only the effects on blocked *send* and *header*
    calls are here (the watcher's `cancelStream` is `CStream.cancelStream`).
    `hdrRace`: the blocked `Header()` races with the watcher that publishes
    "no headers": it returns either the context error or nil headers. -/
def CStream.ctxEnds {α} (sid : Sid) (s : CStream α) (e : CtxErr) (hdrRace : Bool) : CStream α × COut α :=
  if s.ctxDone.isSome then (s, {})
  else
    let s1 := { s with ctxDone := some e }
    let (s2, o1) : CStream α × COut α :=
      match s1.psend with
      | some _ => ({ s1 with psend := none }, { dones := [(sid, "send", .ctx e)] })
      | none => (s1, {})
    let (s3, o2) : CStream α × COut α :=
      if s2.pheader then
        -- in the event of a race the code prefers the headers if they are already published
        let r : Res α := if s2.gotHeaders then .md s2.headers
                         else if hdrRace then .other "RACE:ctx-or-nil-headers" else .ctx e
        ({ s2 with pheader := false }, { dones := [(sid, "header", r)] })
      else (s2, {})
    (s3, o1.add o2)

/-- Continue a pending read over what is queued (client `readMsgLocked`, with
    the eager look-ahead on non-server-stream methods).  Returns also whether
    `RecvMsg` goes on to call `cancelStream(err)` (`!ok` errors). -/
def CStream.resumeRead {α} (sid : Sid) : Nat → CStream α → CStream α × COut α × Option SErr
  | 0, s => (s, {}, none)
  | fuel + 1, s =>
    match s.pread with
    | none => (s, {}, none)
    | some p =>
      let (rwin, q, credits, out) := readLoop s.rcv.rwin s.rcv.queue p.rst
      -- window updates are sent unless the RPC is done (`loadDone() != nil`)
      let cf : List (Sid × C2S α) :=
        if s.fc && s.done.isNone then credits.map (fun n => (sid, C2S.windowUpdate n)) else []
      let s1 := { s with rcv := { s.rcv with rwin := if s.fc then rwin else s.rcv.rwin, queue := q } }
      let failWith (s : CStream α) (e : SErr) (okFlag : Bool) : CStream α × COut α × Option SErr :=
        ({ s with pread := none, readErr := some e }, { frames := cf, dones := [(sid, "recv", e.toRes)] },
         if okFlag then none else some e)
      match out with
      | some (.cont st') =>
        if s1.rcv.closed || s1.rcv.cancelled then
          -- `dequeue` returned !ok: the result is `loadDone()`
          let e : SErr := s1.done.getD .eof
          match p.lookahead, e with
          | some m, .eof => ({ s1 with pread := none, readErr := some .eof }, { frames := cf, dones := [(sid, "recv", .msg m)] }, none)
          | _, _ => failWith s1 e true
        else ({ s1 with pread := some { p with rst := st' } }, { frames := cf }, none)
      | some (.msg m) =>
        match p.lookahead with
        | some _ => failWith s1 (.status (mkStatus codeInternal "Server sent multiple responses for non-server-stream method")) false
        | none =>
          if s1.ss then ({ s1 with pread := none }, { frames := cf, dones := [(sid, "recv", .msg m)] }, none)
          else
            let s2 := { s1 with pread := some { lookahead := some m, rst := none } }
            let (s3, o3, c3) := CStream.resumeRead sid fuel s2
            (s3, ({ frames := cf } : COut α).add o3, c3)
      | some (.err e) => failWith s1 (cperrStatus e) false
      | none => (s1, { frames := cf }, none)

/-- `finishStream(err, trailers)`; returns whether this call won the CAS.
    Effects on blocked calls: the read sees the closed receiver, `Header()`
    sees the (possibly empty) headers, a blocked send sees the cancelled
    context. -/
def CStream.finish {α} (sid : Sid) (s : CStream α) (err : Option SErr) (trailers : MD) : CStream α × COut α × Bool :=
  if s.done.isSome then (s, {}, false)
  else
    let e := mapFinishErr err
    let s1 := { s with done := some e, inTable := false, rcv := s.rcv.close, trailers := trailers,
                       gotHeaders := true, doneSignal := true }
    -- blocked Header(): headers were published (nil if none came)
    let (s2, o1) : CStream α × COut α :=
      if s1.pheader then ({ s1 with pheader := false }, { dones := [(sid, "header", .md s1.headers)] }) else (s1, {})
    -- blocked read: wakes on the closed receiver
    let (s3, o2, _) := s2.resumeRead sid 3
    -- `defer st.cancel()`
    let (s4, o3) := s3.ctxEnds sid .canceled false
    (s4, (o1.add o2).add o3, true)

/-- `cancelStream(err)` -/
def CStream.cancelStream {α} (sid : Sid) (s : CStream α) (err : SErr) : CStream α × COut α :=
  let (s1, o1, won) := s.finish sid (some err) []
  if !won then (s1, o1)
  else
    let rcv := if s1.fc then s1.rcv.cancel else s1.rcv.close
    ({ s1 with rcv := rcv }, o1.add { frames := [(sid, .cancel)] })

/-- after a read completed with an `!ok` error, `RecvMsg` cancels the stream -/
def CStream.afterRead {α} (sid : Sid) (r : CStream α × COut α × Option SErr) : CStream α × COut α :=
  match r with
  | (s, o, none) => (s, o)
  | (s, o, some e) => let (s2, o2) := s.cancelStream sid e; (s2, o.add o2)

/-- the stream's context ends (application cancel, deadline, channel close):
    blocked send/header calls return, and the watcher runs `cancelStream` -/
def CStream.ctxCancelled {α} (sid : Sid) (s : CStream α) (e : CtxErr) : CStream α × COut α :=
  if s.ctxDone.isSome then (s, {})
  else
    let (s1, o1) := s.ctxEnds sid e (s.done.isNone)
    let (s2, o2) := s1.cancelStream sid (.ctx e)
    (s2, o1.add o2)

def CStream.pumpSend {α} (cfg : CCfg) (sid : Sid) (s : CStream α) (snd : Snd α) : CStream α × COut α :=
  if s.fc then
    let (fs, w, rest) := pump cfg.chunkMax s.win snd
    let frames := fs.map (fun f => (sid, dframeToC2S f))
    match rest with
    | none => ({ s with win := w, psend := none }, { frames := frames, dones := [(sid, "send", .ok)] })
    | some snd' =>
      match s.ctxDone with
      | some e => ({ s with win := w, psend := none }, { frames := frames, dones := [(sid, "send", .ctx e)] })
      | none => ({ s with win := w, psend := some snd' }, { frames := frames })
  else
    let fs := sendAllFuel cfg.chunkMax (snd.rem.length + 1) snd
    ({ s with psend := none }, { frames := fs.map (fun f => (sid, dframeToC2S f)), dones := [(sid, "send", .ok)] })

def statusErr (st : Status) : Option SErr := if st.code = 0 then none else some (.status st)

def wrap32c (n : Nat) : Nat := n % 4294967296

/-- `acceptServerFrame` -/
def CStream.onFrame {α} (cfg : CCfg) (sid : Sid) (s : CStream α) : S2C α → CStream α × COut α
  | .settings .. =>
    let (s1, o1, _) := s.finish sid (some (.plain "protocol error: unexpected settings frame")) []; (s1, o1)
  | .headers md =>
    if s.gotHeaders then (s, {})
    else
      let s1 := { s with gotHeaders := true, headers := md }
      if s1.pheader then ({ s1 with pheader := false }, { dones := [(sid, "header", .md md)] }) else (s1, {})
  | .close st tr =>
    let (s1, o1, _) := s.finish sid (statusErr st) tr; (s1, o1)
  | .windowUpdate n =>
    if !s.fc || n = 0 then (s, {})
    else
      let s1 := { s with win := wrap32c (s.win + n) }
      match s1.psend with
      | none => (s1, {})
      | some snd => s1.pumpSend cfg sid snd
  | .unset =>
    let (s1, o1, _) := s.finish sid (some (.plain "protocol error: unrecognized frame type")) []; (s1, o1)
  | f =>
    let df : DFrame α := match f with
      | .msg size d => .env size d
      | .more d => .more d
      | _ => .other
    if s.fc then
      match s.rcv.accept df with
      | (_, .dropped) => (s, {})
      | (_, .windowExceeded) =>
        let (s1, o1, _) := s.finish sid (some (.status (mkStatus codeResourceExhausted "flow control window exceeded"))) []
        (s1, o1)
      | (r, .ok) => CStream.afterRead sid (({ s with rcv := r } : CStream α).resumeRead sid 3)
    else
      if s.rcv.closed then (s, {})
      else if !s.rcv.queue.isEmpty then ({ s with unsupported := true }, {})
      else CStream.afterRead sid (({ s with rcv := { s.rcv with queue := [df] } } : CStream α).resumeRead sid 3)

/-- caller-side calls on a stream -/
inductive CCall (α : Type) where
  | send (m : List α)
  | closeSend
  | recv
  | header
  | trailer
  | cancel            -- the application cancels the RPC's context

def CStream.onCall {α} (cfg : CCfg) (sid : Sid) (s : CStream α) : CCall α → CStream α × COut α
  | .send m =>
    if !s.cs && s.numSent == 1 then (s, { dones := [(sid, "send", .status codeInternal)] })
    else ({ s with numSent := s.numSent + 1 } : CStream α).pumpSend cfg sid (Snd.start m)
  | .closeSend =>
    if s.doneSignal then (s, { dones := [(sid, "closesend", (s.done.getD .eof).toRes)] })
    else if s.halfClosed then (s, { dones := [(sid, "closesend", .other "already half-closed")] })
    else ({ s with halfClosed := true }, { frames := [(sid, .halfClose)], dones := [(sid, "closesend", .ok)] })
  | .recv =>
    match s.readErr with
    | some e => (s, { dones := [(sid, "recv", e.toRes)] })
    | none => CStream.afterRead sid (({ s with pread := some { lookahead := none, rst := none } } : CStream α).resumeRead sid 3)
  | .header =>
    if s.gotHeaders then (s, { dones := [(sid, "header", .md s.headers)] })
    else match s.ctxDone with
      | some e => (s, { dones := [(sid, "header", .ctx e)] })
      | none => ({ s with pheader := true }, {})
  | .trailer => (s, { dones := [(sid, "trailer", .md (if s.doneSignal then s.trailers else []))] })
  | .cancel => s.ctxCancelled sid .canceled

/-! ### the endpoint -/

inductive Phase where
  | awaitingSettings
  | running
  deriving DecidableEq, Repr

structure Cli (α : Type) where
  phase : Phase := .running
  rev : Int := 0                       -- `useRevision`
  peerWin : Nat := 0                   -- `settings.InitialWindowSize`
  lastStreamID : Int := 0
  streamCreated : Bool := false
  streams : List (Sid × CStream α) := []
  finished : Option (Option String) := none   -- `finished`, with the class of `err` (`none` = io.EOF, i.e. Err() = nil)
  now : Nat := 0
  deriving Repr

def Cli.table {α} (c : Cli α) : List Sid := (c.streams.filter (·.2.inTable)).map (·.1)

def Cli.getStream {α} (c : Cli α) (sid : Sid) : Option (CStream α) :=
  (c.streams.find? (fun e => e.1 == sid && e.2.inTable)).map (·.2)

def Cli.getAny {α} (c : Cli α) (sid : Sid) : Option (CStream α) :=
  (c.streams.find? (fun e => e.1 == sid)).map (·.2)

def Cli.setAny {α} (c : Cli α) (sid : Sid) (st : CStream α) : Cli α :=
  { c with streams := c.streams.map (fun e => if e.1 == sid then (sid, st) else e) }

def Cli.start {α} (cfg : CCfg) : Cli α :=
  { phase := if cfg.awaitSettings then .awaitingSettings else .running }

/-- `close(err)`: tear-down, mark finished, cancel every stream in the table.
    `sendsWork`: whether the carrier still accepts frames after the tear-down
    callback (forward tunnels half-close the carrier first: it does not). -/
def Cli.close {α} (c : Cli α) (err : Option String) (sendsWork : Bool) : Cli α × COut α :=
  if c.finished.isSome then (c, {})
  else
    let rec go : List (Sid × CStream α) → List (Sid × CStream α) × COut α
      | [] => ([], {})
      | (sid, st) :: rest =>
        let (st', o) := if st.inTable then st.ctxCancelled sid .canceled else (st, {})
        let (rest', o') := go rest
        ((sid, st') :: rest', o.add o')
    let (streams, o) := go c.streams
    let o' : COut α := if sendsWork then o else { o with frames := [] }
    ({ c with streams := streams, finished := some err },
     o'.add { events := [s!"chan-finished {err.getD "nil"}"] })

/-- the first frame when settings are awaited -/
def Cli.onSettingsPhase {α} (cfg : CCfg) (c : Cli α) (sid : Sid) (f : S2C α) : Cli α × COut α :=
  if sid != -1 then c.close (some "bad_settings_stream_id") false
  else match f with
    | .settings win revs =>
      match Negotiate.select cfg.revs revs with
      | none => c.close (some "no_common_revision") false
      | some r => ({ c with phase := .running, rev := r, peerWin := win }, { events := [s!"settings-ok rev={r}"] })
    | _ => c.close (some "first_frame_not_settings") false

/-- one frame taken from the carrier by `recvLoop` -/
def Cli.onFrame {α} (cfg : CCfg) (c : Cli α) (sid : Sid) (f : S2C α) : Cli α × COut α :=
  if c.finished.isSome then (c, {})
  else if c.phase == .awaitingSettings then c.onSettingsPhase cfg sid f
  else
    match c.getStream sid with
    | some st =>
      let (st', o) := st.onFrame cfg sid f
      (c.setAny sid st', o)
    | none =>
      if c.streamCreated && decide (sid ≤ c.lastStreamID) then (c, {})
      else c.close (some "never_created") false

/-- `Recv` on the carrier fails: `close(err)` (io.EOF = `none`) -/
def Cli.carrierEnds {α} (c : Cli α) (err : Option String) : Cli α × COut α :=
  if c.phase == .awaitingSettings && c.finished.isNone then c.close (some "failed_to_read_settings") false
  else c.close err false

/-- `newStream`: `timeout` = the caller's own deadline (relative), `cancelled` =
    the caller's context is already done -/
def Cli.newStream {α} (cfg : CCfg) (c : Cli α) (cs ss : Bool) (method : List Nat) (md : MD)
    (timeout : Option Nat) (cancelled : Bool) : Cli α × COut α × Option Sid :=
  if c.finished.isSome then (c, { dones := [(0, "new", .other "channel is closed")] }, none)
  else
    match IdRules.allocate c.lastStreamID with
    | none => (c, { dones := [(0, "new", .other "all stream IDs exhausted (must create a new channel)")] }, none)
    | some sid =>
      let fc := c.rev != 0
      let st : CStream α :=
        { cs := cs, ss := ss, fc := fc, rcv := RcvQ.init cfg.W, win := c.peerWin,
          deadline := timeout.map (· + c.now) }
      let c1 := { c with lastStreamID := sid, streamCreated := true, streams := c.streams ++ [(sid, st)] }
      let o : COut α := { frames := [(sid, .newStream method md c.rev cfg.W)], dones := [(sid, "new", .ok)] }
      if cancelled then
        let (st', o') := st.ctxCancelled sid .canceled
        (c1.setAny sid st', o.add o', some sid)
      else (c1, o, some sid)

def Cli.onCall {α} (cfg : CCfg) (c : Cli α) (sid : Sid) (call : CCall α) : Cli α × COut α :=
  match c.getAny sid with
  | none => (c, { events := [s!"no-such-stream {sid}"] })
  | some st =>
    let (st', o) := st.onCall cfg sid call
    if c.finished.isSome && !o.frames.isEmpty then
      -- the carrier was torn down: the first `Send` fails and the call returns that error
      match call with
      | .send _ => (c.setAny sid { st' with psend := none },
                    { dones := [(sid, "send", .other "carrier-closed")] })
      | _ => (c.setAny sid st', { o with frames := [] })
    else (c.setAny sid st', o)

/-- the clock advances: caller deadlines expire -/
def Cli.tick {α} (c : Cli α) (d : Nat) : Cli α × COut α :=
  let now := c.now + d
  let rec go : List (Sid × CStream α) → List (Sid × CStream α) × COut α
    | [] => ([], {})
    | (sid, st) :: rest =>
      let (st', o) : CStream α × COut α :=
        match st.deadline with
        | some dl => if dl ≤ now then st.ctxCancelled sid .deadline else (st, {})
        | none => (st, {})
      let (rest', o') := go rest
      ((sid, st') :: rest', o.add o')
  let (streams, o) := go c.streams
  let o' : COut α := if c.finished.isSome then { o with frames := [] } else o
  ({ c with now := now, streams := streams }, o')

/-- every stimulus of the client endpoint -/
inductive CStim (α : Type) where
  | frame (sid : Sid) (f : S2C α)
  | new (cs ss : Bool) (method : List Nat) (md : MD) (timeout : Option Nat) (cancelled : Bool)
  | call (sid : Sid) (c : CCall α)
  | tick (d : Nat)
  | carrierEnds (err : Option String)
  | close

def Cli.step {α} (cfg : CCfg) (c : Cli α) : CStim α → Cli α × COut α
  | .frame sid f => c.onFrame cfg sid f
  | .new cs ss m md t cn => let (c', o, _) := c.newStream cfg cs ss m md t cn; (c', o)
  | .call sid call => c.onCall cfg sid call
  | .tick d => c.tick d
  | .carrierEnds err => c.carrierEnds err
  | .close => c.close none false

def Cli.run {α} (cfg : CCfg) : Cli α → List (CStim α) → Cli α × List (COut α)
  | c, [] => (c, [])
  | c, x :: xs =>
    let (c1, o) := c.step cfg x
    let (c2, os) := Cli.run cfg c1 xs
    (c2, o :: os)

end TunnelModel.LFrame
