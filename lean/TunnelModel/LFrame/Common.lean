import TunnelModel.Framing
/-
  L-frame models: shared vocabulary.

  One model step = one stimulus (an application call, the delivery of one
  frame, a tick of the clock, …) followed by everything the real code does
  until all its goroutines are blocked again.  See DESIGN.md 2.2.

  Payload bytes are an arbitrary type `α` (the code never inspects them).
-/
namespace TunnelModel.LFrame
open TunnelModel.Framing

abbrev Sid := Int

/-- metadata: key ↦ values, keys kept in first-insertion order (printing sorts) -/
abbrev MD := List (String × List String)

/-- `metadata.Join(a, b)`: for every key of `b` its values are appended -/
def MD.join : MD → MD → MD
  | a, [] => a
  | a, (k, vs) :: rest =>
    let a' := if a.any (·.1 == k) then a.map (fun (k', vs') => if k' == k then (k', vs' ++ vs) else (k', vs'))
              else a ++ [(k, vs)]
    MD.join a' rest

def MD.get (m : MD) (k : String) : List String := (m.lookup k).getD []

/-- gRPC status: code and message (details are passed through untouched by the
    code and checked by the harness on the implementation only) -/
structure Status where
  code : Nat
  msg : String
  /-- other codes the implementation may legitimately produce here because two
      goroutines race to finish the stream (documented where it is set) -/
  alt : List Nat := []
  deriving DecidableEq, Repr

def mkStatus (c : Nat) (m : String) : Status := { code := c, msg := m }

/-- why a context ended -/
inductive CtxErr where
  | canceled | deadline
  deriving DecidableEq, Repr

/-- canonical results of application calls -/
inductive Res (α : Type) where
  | ok
  | msg (m : List α)
  | md (m : MD)
  | eof
  | status (code : Nat)
  | ctx (e : CtxErr)            -- raw context.Canceled / context.DeadlineExceeded
  | other (tag : String)        -- any other Go error, by canonical tag
  deriving Repr

/-- frames client → server -/
inductive C2S (α : Type) where
  | newStream (method : List Nat) (md : MD) (rev : Int) (win : Nat)
  | msg (size : Nat) (data : List α)
  | more (data : List α)
  | halfClose
  | cancel
  | windowUpdate (n : Nat)
  | unset
  deriving Repr

/-- frames server → client -/
inductive S2C (α : Type) where
  | settings (win : Nat) (revs : List Int)
  | headers (md : MD)
  | msg (size : Nat) (data : List α)
  | more (data : List α)
  | close (st : Status) (trailers : MD)
  | windowUpdate (n : Nat)
  | unset
  deriving Repr

/-- gRPC codes used by the code -/
def codeOK : Nat := 0
def codeCanceled : Nat := 1
def codeUnknown : Nat := 2
def codeInvalidArgument : Nat := 3
def codeDeadlineExceeded : Nat := 4
def codeResourceExhausted : Nat := 8
def codeUnimplemented : Nat := 12
def codeInternal : Nat := 13
def codeUnavailable : Nat := 14

/-- the errors that flow through `finishStream` / the sticky read errors -/
inductive SErr where
  | eof                         -- io.EOF
  | ctx (e : CtxErr)
  | status (st : Status)
  | plain (tag : String)        -- errors.New(...) : becomes Unknown + text on the wire
  deriving DecidableEq, Repr

def SErr.toRes {α} : SErr → Res α
  | .eof => .eof
  | .ctx e => .ctx e
  | .status st => .status st.code
  | .plain t => .other t

/-- `status.FromError(err)` then `.Proto()` as done by the server's `finishStream`
    (`nil` ↦ OK; context errors are *not* status errors here: they become
    Unknown with the error text) -/
def SErr.wireStatus : Option SErr → Status
  | none => (mkStatus codeOK "")
  | some .eof => (mkStatus codeUnknown "EOF")
  | some (.ctx .canceled) => (mkStatus codeUnknown "context canceled")
  | some (.ctx .deadline) => (mkStatus codeUnknown "context deadline exceeded")
  | some (.status st) => st
  | some (.plain t) => mkStatus codeUnknown t

/-! ### receiver with frames (flow-controlled), as in FlowStep.Rcv but carrying the frames -/

structure RcvQ (α : Type) where
  rwin : Nat
  queue : List (DFrame α)
  closed : Bool
  cancelled : Bool
  deriving Repr

def RcvQ.init {α} (W : Nat) : RcvQ α := { rwin := W, queue := [], closed := false, cancelled := false }

inductive Accept where
  | ok | dropped | windowExceeded
  deriving DecidableEq, Repr

def RcvQ.accept {α} (r : RcvQ α) (f : DFrame α) : RcvQ α × Accept :=
  if r.closed then (r, .dropped)
  else if f.size > r.rwin then (r, .windowExceeded)
  else ({ r with rwin := r.rwin - f.size, queue := r.queue ++ [f] }, .ok)

def RcvQ.close {α} (r : RcvQ α) : RcvQ α := { r with closed := true }
def RcvQ.cancel {α} (r : RcvQ α) : RcvQ α := { r with cancelled := true, queue := [] }

/-- a pending read: which pass of `readMsg` it is in and the partial message -/
structure PRead (α : Type) where
  lookahead : Option (List α)   -- `some m`: first message `m` is complete, the eager second read is running
  rst : RState α
  deriving Repr

/-- how a read loop over the queue ended -/
inductive ReadOut (α : Type) where
  | blocked (p : PRead α)               -- queue empty, receiver open: the call pends
  | msg (m : List α)                    -- a complete message
  | ended                               -- `dequeue` returned `!ok`
  | perr (e : PErr)                     -- reassembly error
  deriving Repr

/-- Run the `for` loop of `readMsgLocked` over the queue: returns the receiver
    afterwards, the credits returned (one window update per dequeued frame of
    positive size, in order) and the outcome.  Structural on the queue. -/
def readLoop {α} (rwin : Nat) : List (DFrame α) → RState α → (Nat × List (DFrame α) × List Nat × Option (PStep α))
  | [], st => (rwin, [], [], some (.cont st))
  | f :: q, st =>
    let credit := if f.size > 0 then [f.size] else []
    match parseStep st f with
    | .cont st' =>
      let (w, q', cs, r) := readLoop (rwin + f.size) q st'
      (w, q', credit ++ cs, r)
    | .msg m => (rwin + f.size, q, credit, some (.msg m))
    | .err e => (rwin + f.size, q, credit, some (.err e))

end TunnelModel.LFrame
