import TunnelModel.LFrame.Client
/-!
  `tunnelChannel.Invoke` (tunnel_client.go): the unary call path.  It is a
  sequential script over one client stream:

      newStream; SendMsg(req); CloseSend(); RecvMsg(resp);
      RecvMsg(extra)   -- must report end-of-stream
      Trailer(); return

  The script runs on the caller's goroutine, so it advances only when its
  pending call completes; `Inv.next` is one such advance.  The stream-level
  calls are those of `CStream.onCall`.
-/
namespace TunnelModel.LFrame

/-- where the script is: which call it is waiting for -/
inductive InvStage (α : Type) where
  | sending                      -- SendMsg(req) pending
  | closing                      -- CloseSend() pending
  | recv1                        -- first RecvMsg pending
  | recv2 (resp : List α)        -- extra RecvMsg pending; `resp` is the response obtained
  deriving Repr

/-- what the script does when its pending call completes with `res`:
    the next stream-level call to issue (and the new stage), or the final result of `Invoke` -/
def Inv.next {α} : InvStage α → Res α → Sum (CCall α × InvStage α) (Res α)
  | .sending, .ok => .inl (.closeSend, .closing)
  | .sending, r => .inr r                          -- SendMsg failed: Invoke returns that error
  | .closing, .ok => .inl (.recv, .recv1)
  | .closing, r => .inr r
  | .recv1, .msg m => .inl (.recv, .recv2 m)       -- got the response: make sure nothing follows
  | .recv1, r => .inr r                            -- no response: the error (end-of-stream included) is returned
  | .recv2 m, .eof => .inr (.msg m)                -- exactly one response, then OK: success
  | .recv2 _, .msg _ => .inr (.status codeInternal)  -- a second response: Internal (the stream is cancelled)
  | .recv2 _, r => .inr r

/-- the operation name (`dones` tag) of the call a stage waits for -/
def InvStage.waitsFor {α} : InvStage α → String
  | .sending => "send"
  | .closing => "closesend"
  | .recv1 => "recv"
  | .recv2 _ => "recv"

/-- `Invoke` succeeds exactly when the script saw one response and then the end of the stream -/
def Inv.succeeds {α} (results : List (Res α)) : Option (List α) :=
  match results with
  | [.ok, .ok, .msg m, .eof] => some m
  | _ => none

end TunnelModel.LFrame
