import TunnelModel.LFrame.Common
import TunnelModel.Method
import TunnelModel.Timeout
/-
  L-frame model of the tunnel server endpoint (tunnel_server.go): the receive
  loop `serve`, `createStream`, and the per-stream server half
  (`acceptClientFrame`, `readMsg*`, `SendMsg`, header/trailer state,
  `finishStream`, `halfClose`, the context watcher).

  An endpoint is an open system: stimuli are incoming frames (arbitrary, from
  any peer), handler calls, the clock and the carrier ending; outputs are the
  frames it emits, completions of handler calls, and events.
-/
namespace TunnelModel.LFrame
open TunnelModel.Framing

structure SCfg where
  W : Nat := 65536                 -- receive window advertised per stream (`initialWindowSize`)
  chunkMax : Nat := 16384
  services : List (Method.Name × Method.ServiceDesc) := []
  sendSettings : Bool := true      -- `clientAcceptsSettings`
  revs : List Int := [0, 1]        -- `supportedRevisions()`

inductive HStatus where
  | decoding    -- unary method: the decode callback (first RecvMsg) has not returned yet
  | running     -- handler function entered, script commands may be issued
  | returned
  deriving DecidableEq, Repr

structure SStream (α : Type) where
  cs : Bool
  ss : Bool
  unary : Bool
  fc : Bool
  ctxDone : Option CtxErr := none
  deadline : Option Nat := none
  rcv : RcvQ α
  halfClosed : Option SErr := none
  readErr : Option SErr := none
  pread : Option (PRead α) := none
  win : Nat
  psend : Option (Snd α) := none
  finishAfterSend : Bool := false      -- unary reply in progress: `finishStream(err)` follows the send
  numSent : Nat := 0
  headers : MD := []
  trailers : MD := []
  sentHeaders : Bool := false
  closed : Bool := false
  inTable : Bool := true
  hstatus : HStatus
  unsupported : Bool := false          -- revision zero: the receive loop would block here (outside the step-exact model)
  deriving Repr

/-- what a step produces, besides the new state -/
structure Out (α : Type) where
  frames : List (Sid × S2C α) := []
  dones : List (Sid × String × Res α) := []     -- completed handler calls: (stream, op, result)
  events : List String := []
  deriving Repr

def Out.add {α} (a b : Out α) : Out α :=
  { frames := a.frames ++ b.frames, dones := a.dones ++ b.dones, events := a.events ++ b.events }

def wrap32 (n : Nat) : Nat := n % 4294967296

def errFlowControl : SErr := .status (mkStatus codeResourceExhausted "flow control window exceeded")

def perrStatus (method : String) : PErr → SErr
  | .envBeforeDone => .status (mkStatus codeInvalidArgument "received request message envelope before previous message finished")
  | .moreThanDeclared => .status (mkStatus codeInvalidArgument "received more data than indicated by request message envelope")
  | .noEnvelope => .status (mkStatus codeInvalidArgument "never received envelope for request message")
  | .unrecognized => .status (mkStatus codeInvalidArgument ("unrecognized frame type" ++ method))

/-- `halfClose(err)` -/
def SStream.halfClose {α} (s : SStream α) (e : SErr) : SStream α :=
  if s.halfClosed.isSome then s else { s with halfClosed := some e, rcv := s.rcv.close }

/-- the part of `finishStream(err)` after `st.cancel()`: table removal,
    `halfClose`, and (once only) the headers/close frames -/
def SStream.finishCore {α} (sid : Sid) (s : SStream α) (err : Option SErr) : SStream α × Out α :=
  let s2 := { s with inTable := false }
  let s3 := s2.halfClose (err.getD .eof)
  if s3.closed then (s3, {})
  else
    let hdr : List (Sid × S2C α) := if s3.sentHeaders then [] else [(sid, .headers s3.headers)]
    let cl : List (Sid × S2C α) := [(sid, .close (SErr.wireStatus err) s3.trailers)]
    ({ s3 with sentHeaders := true, headers := [], closed := true, trailers := [] }, { frames := hdr ++ cl })

/-- the stream context ends (`cancel()` or deadline): the watcher cancels the
    receiver; a send blocked on the window and a blocked read both return the
    context error.  If the blocked call is the decode callback or the reply of
    a unary method, the handler returns that error, i.e. `finishStream(ctxErr)`. -/
def SStream.cancelCtx {α} (sid : Sid) (s : SStream α) (e : CtxErr) : SStream α × Out α :=
  if s.ctxDone.isSome then (s, {})
  else
    let rcv := if s.fc then s.rcv.cancel else s.rcv.close
    let s1 := { s with ctxDone := some e, rcv := rcv }
    let (s2, o1) : SStream α × Out α :=
      match s1.psend with
      | some _ =>
        let s2 := { s1 with psend := none }
        if s1.finishAfterSend then
          ({ s2 with finishAfterSend := false, hstatus := .returned } : SStream α).finishCore sid (some (.ctx e))
        else (s2, { dones := [(sid, "send", .ctx e)] })
      | none => (s1, {})
    let (s3, o2) : SStream α × Out α :=
      match s2.pread with
      | some _ =>
        let s3 := { s2 with pread := none, readErr := some (.ctx e) }
        if s2.hstatus == .decoding then
          let (s4, o4) := ({ s3 with hstatus := .returned } : SStream α).finishCore sid (some (.ctx e))
          (s4, ({ dones := [(sid, "decode", .ctx e)] } : Out α).add o4)
        else (s3, { dones := [(sid, "recv", .ctx e)] })
      | none => (s2, {})
    (s3, (({ events := [s!"ctxdone {sid} {if e == .canceled then "canceled" else "deadline"}"] } : Out α).add o1).add o2)

/-- `finishStream(err)`; `err = none` is a nil error.  `byLoop`: called from the
    receive loop while the handler may be blocked in the decode callback or in
    the reply of a unary method.  That handler is released by `st.cancel()` and
    calls `finishStream(context error)` itself; whichever of the two calls takes
    `writeMu` first decides the status on the wire (the loop is ahead in
    practice; both are accepted). -/
def SStream.finish {α} (sid : Sid) (s : SStream α) (err : Option SErr) (byLoop : Bool := false) : SStream α × Out α :=
  let racing := byLoop && s.ctxDone.isNone &&
    ((s.hstatus == .decoding && s.pread.isSome) || (s.finishAfterSend && s.psend.isSome))
  let err' : Option SErr :=
    match racing, err with
    | true, some (.status st) => if st.code == codeUnknown then err else some (.status { st with alt := [codeUnknown] })
    | _, _ => err
  let (s1, o1) := s.finishCore sid err'
  let (s2, o2) := s1.cancelCtx sid .canceled
  (s2, o2.add o1)

def dframeToS2C {α} : DFrame α → S2C α
  | .env size d => .msg size d
  | .more d => .more d
  | .other => .unset

/-- the sending loop of `defaultSender.send` / `noFlowControlSender.send` from
    the current state of a send in progress -/
def SStream.pumpSend {α} (cfg : SCfg) (sid : Sid) (s : SStream α) (snd : Snd α) : SStream α × Out α :=
  if s.fc then
    let (fs, w, rest) := pump cfg.chunkMax s.win snd
    let frames := fs.map (fun f => (sid, dframeToS2C f))
    match rest with
    | none => ({ s with win := w, psend := none }, { frames := frames, dones := [(sid, "send", .ok)] })
    | some snd' =>
      match s.ctxDone with
      | some e => ({ s with win := w, psend := none }, { frames := frames, dones := [(sid, "send", .ctx e)] })
      | none => ({ s with win := w, psend := some snd' }, { frames := frames })
  else
    let fs := sendAllFuel cfg.chunkMax (snd.rem.length + 1) snd
    ({ s with psend := none }, { frames := fs.map (fun f => (sid, dframeToS2C f)), dones := [(sid, "send", .ok)] })

/-- after a send completed: the unary reply path continues with `finishStream` -/
def SStream.afterSend {α} (sid : Sid) (s : SStream α) (o : Out α) : SStream α × Out α :=
  if s.finishAfterSend && s.psend.isNone then
    -- result of the send decides the status: only `ok` or a context error can occur here
    let err : Option SErr := match o.dones.find? (fun d => d.2.1 == "send") with
      | some (_, _, .ctx e) => some (.ctx e)
      | some (_, _, .status c) => some (.status (mkStatus c ""))
      | _ => none
    let s1 := { s with finishAfterSend := false, hstatus := .returned }
    let (s2, o2) := s1.finish sid err
    -- the reply's own completion is internal to the handler's return: not reported
    (s2, ({ o with dones := o.dones.filter (fun d => d.2.1 != "send") } : Out α).add o2)
  else (s, o)

/-- credits for dequeued frames are sent unless the stream is half-closed -/
def SStream.creditFrames {α} (sid : Sid) (s : SStream α) (credits : List Nat) : List (Sid × S2C α) :=
  if s.fc && s.halfClosed.isNone then credits.map (fun n => (sid, S2C.windowUpdate n)) else []

/-- Continue a pending read over what is queued.  Implements one or two
    passes of `readMsgLocked` (the eager look-ahead on non-client-stream
    methods) and the `finishStream` that `RecvMsg` performs on `!ok` errors.
    `fuel` bounds the number of passes (2 suffice). -/
def SStream.resumeRead {α} (sid : Sid) (methodName : String) : Nat → SStream α → SStream α × Out α
  | 0, s => (s, {})
  | fuel + 1, s =>
    match s.pread with
    | none => (s, {})
    | some p =>
      let (rwin, q, credits, out) := readLoop s.rcv.rwin s.rcv.queue p.rst
      let cf := s.creditFrames sid credits
      let s1 := { s with rcv := { s.rcv with rwin := if s.fc then rwin else s.rcv.rwin, queue := q } }
      let opName := if s.hstatus == .decoding then "decode" else "recv"
      -- complete the call with an error; `ok = false` errors also finish the stream
      let failWith (s : SStream α) (e : SErr) (okFlag : Bool) : SStream α × Out α :=
        let s2 := { s with pread := none, readErr := some e }
        let o : Out α := { frames := cf, dones := [(sid, opName, e.toRes)] }
        if okFlag then (s2, o)
        else let (s3, o3) := s2.finish sid (some e); (s3, o.add o3)
      match out with
      | some (.cont st') =>
        if s1.rcv.closed || s1.rcv.cancelled then
          -- `dequeue` returned !ok: context error first, then the recorded half-close error
          let e : SErr := match s1.ctxDone, s1.halfClosed with
            | some c, _ => .ctx c
            | none, some h => h
            | none, none => .ctx .canceled
          match p.lookahead, e with
          | some m, .eof =>
            -- look-ahead found the end of the request stream: deliver the first message
            ({ s1 with pread := none, readErr := some .eof }, { frames := cf, dones := [(sid, opName, .msg m)] })
          | _, _ => failWith s1 e true
        else ({ s1 with pread := some { p with rst := st' } }, { frames := cf })
      | some (.msg m) =>
        match p.lookahead with
        | some _ =>
          failWith s1 (.status (mkStatus codeInvalidArgument "Already received request for non-client-stream method")) false
        | none =>
          if s1.cs then ({ s1 with pread := none }, { frames := cf, dones := [(sid, opName, .msg m)] })
          else
            -- eager second read
            let s2 := { s1 with pread := some { lookahead := some m, rst := none } }
            let (s3, o3) := SStream.resumeRead sid methodName fuel s2
            (s3, ({ frames := cf } : Out α).add o3)
      | some (.err e) => failWith s1 (perrStatus methodName e) false
      | none => (s1, { frames := cf })

/-- what happens after the decode callback of a unary method returned -/
def SStream.afterDecode {α} (sid : Sid) (s : SStream α) (o : Out α) : SStream α × Out α :=
  if s.hstatus == .decoding && s.pread.isNone then
    match o.dones.find? (fun d => d.2.1 == "decode") with
    | some (_, _, .msg _) => ({ s with hstatus := .running }, o)
    | some (_, _, r) =>
      -- the handler returns the decode error: `finishStream(err)`
      let err : SErr := match r with
        | .eof => .eof
        | .ctx e => .ctx e
        | .status c => s.readErr.getD (.status (mkStatus c ""))
        | _ => s.readErr.getD (.plain "?")
      let (s2, o2) := ({ s with hstatus := .returned } : SStream α).finish sid (some err)
      (s2, o.add o2)
    | none => (s, o)
  else (s, o)

def SStream.readAndSettle {α} (sid : Sid) (s : SStream α) : SStream α × Out α :=
  let (s1, o1) := s.resumeRead sid "" 3
  s1.afterDecode sid o1

/-- start a `RecvMsg` call -/
def SStream.startRecv {α} (sid : Sid) (s : SStream α) : SStream α × Out α :=
  let opName := if s.hstatus == .decoding then "decode" else "recv"
  match s.readErr with
  | some e => s.afterDecode sid { dones := [(sid, opName, e.toRes)] }
  | none =>
    match s.ctxDone with
    | some c => ({ s with readErr := some (.ctx c) } : SStream α).afterDecode sid { dones := [(sid, opName, .ctx c)] }
    | none => ({ s with pread := some { lookahead := none, rst := none } } : SStream α).readAndSettle sid

/-- `acceptClientFrame` -/
def SStream.onFrame {α} (cfg : SCfg) (sid : Sid) (s : SStream α) : C2S α → SStream α × Out α
  | .halfClose =>
    if s.halfClosed.isSome then (s, {}) else (s.halfClose .eof).readAndSettle sid
  | .cancel => s.finish sid (some (.ctx .canceled)) true
  | .windowUpdate n =>
    if !s.fc || n = 0 then (s, {})
    else
      let s1 := { s with win := wrap32 (s.win + n) }
      match s1.psend with
      | none => (s1, {})
      | some snd => let (s2, o2) := s1.pumpSend cfg sid snd; s2.afterSend sid o2
  | .unset => s.finish sid (some (.plain "protocol error: unrecognized frame type")) true
  | .newStream .. => (s, {})   -- handled by the endpoint
  | f =>
    let df : DFrame α := match f with
      | .msg size d => .env size d
      | .more d => .more d
      | _ => .other
    if s.fc then
      match s.rcv.accept df with
      | (_, .dropped) => (s, {})
      | (_, .windowExceeded) => s.finish sid (some errFlowControl) true
      | (r, .ok) => ({ s with rcv := r } : SStream α).readAndSettle sid
    else
      if s.rcv.closed then (s, {})
      else if !s.rcv.queue.isEmpty then ({ s with unsupported := true }, {})
      else ({ s with rcv := { s.rcv with queue := [df] } } : SStream α).readAndSettle sid

/-- handler-side calls -/
inductive HCall (α : Type) where
  | recv
  | send (m : List α)
  | setHeader (md : MD)
  | sendHeader (md : MD)
  | setTrailer (md : MD)
  | ret (st : Status)          -- stream handler returns / unary handler returns an error
  | reply (m : List α)         -- unary handler returns a response

def SStream.onCall {α} (cfg : SCfg) (sid : Sid) (s : SStream α) : HCall α → SStream α × Out α
  | .recv => s.startRecv sid
  | .send m =>
    let (s1, hdr) : SStream α × List (Sid × S2C α) :=
      if s.sentHeaders then (s, []) else ({ s with sentHeaders := true, headers := [] }, [(sid, .headers s.headers)])
    if !s1.ss && s1.numSent == 1 then
      (s1, { frames := hdr, dones := [(sid, "send", .status codeInternal)] })
    else
      let (s2, o2) := ({ s1 with numSent := s1.numSent + 1 } : SStream α).pumpSend cfg sid (Snd.start m)
      (s2, ({ frames := hdr } : Out α).add o2)
  | .setHeader md =>
    if s.sentHeaders then (s, { dones := [(sid, "sethdr", .other "already sent headers")] })
    else ({ s with headers := MD.join s.headers md }, { dones := [(sid, "sethdr", .ok)] })
  | .sendHeader md =>
    if s.sentHeaders then (s, { dones := [(sid, "sendhdr", .other "already sent headers")] })
    else
      ({ s with headers := [], sentHeaders := true },
       { frames := [(sid, .headers (MD.join s.headers md))], dones := [(sid, "sendhdr", .ok)] })
  | .setTrailer md =>
    if s.closed then (s, { dones := [(sid, "settlr", .ok)] })
    else ({ s with trailers := MD.join s.trailers md }, { dones := [(sid, "settlr", .ok)] })
  | .ret st =>
    let err : Option SErr := if st.code = 0 then none else some (.status st)
    let (s1, o1) := ({ s with hstatus := .returned } : SStream α).finish sid err
    (s1, o1.add { events := [s!"returned {sid}"] })
  | .reply m =>
    -- `err = st.SendMsg(resp)` then `finishStream(err)`
    let (s1, hdr) : SStream α × List (Sid × S2C α) :=
      if s.sentHeaders then (s, []) else ({ s with sentHeaders := true, headers := [] }, [(sid, .headers s.headers)])
    let (s2, o2) := ({ s1 with numSent := s1.numSent + 1, finishAfterSend := true } : SStream α).pumpSend cfg sid (Snd.start m)
    let (s3, o3) := s2.afterSend sid (({ frames := hdr } : Out α).add o2)
    (s3, o3)

/-! ### the endpoint -/

structure Srv (α : Type) where
  lastSeen : Int := -1
  streams : List (Sid × SStream α) := []
  closing : Bool := false
  returned : Option (Option String) := none    -- `serve` returned: `some none` = nil error
  now : Nat := 0
  deriving Repr

def Srv.table {α} (s : Srv α) : List Sid := (s.streams.filter (·.2.inTable)).map (·.1)

def Srv.getStream {α} (s : Srv α) (sid : Sid) : Option (SStream α) :=
  (s.streams.find? (fun e => e.1 == sid && e.2.inTable)).map (·.2)

/-- the stream object with this id (ids are never reused: `sid > lastSeen` on
    creation), whether or not it is still in the table: its handler may still
    be running -/
def Srv.getAny {α} (s : Srv α) (sid : Sid) : Option (SStream α) :=
  (s.streams.find? (fun e => e.1 == sid)).map (·.2)

def Srv.setAny {α} (s : Srv α) (sid : Sid) (st : SStream α) : Srv α :=
  { s with streams := s.streams.map (fun e => if e.1 == sid then (sid, st) else e) }

/-- `serve` returns (protocol error, carrier error or EOF): the root context is
    cancelled, hence every stream context -/
def Srv.serveReturns {α} (s : Srv α) (err : Option String) : Srv α × Out α :=
  let rec go : List (Sid × SStream α) → List (Sid × SStream α) × Out α
    | [] => ([], {})
    | (sid, st) :: rest =>
      let (st', o) := st.cancelCtx sid .canceled
      let (rest', o') := go rest
      ((sid, st') :: rest', o.add o')
  let (streams, o) := go s.streams
  ({ s with streams := streams, returned := some err },
   o.add { events := [s!"serve-returned {err.getD "nil"}"] })

def rejectFrame {α} (sid : Sid) (code : Nat) (msg : String) : Out α :=
  { frames := [(sid, .close (mkStatus code msg) [])] }

def mdTimeout (md : MD) : Option Nat :=
  Timeout.parse ((md.get "grpc-timeout").map (fun s => s.toUTF8.toList.map (·.toNat)))

/-- `createStream` -/
def Srv.createStream {α} (cfg : SCfg) (s : Srv α) (sid : Sid) (method : List Nat) (md : MD) (rev : Int) (win : Nat) :
    Srv α × Out α :=
  if s.table.contains sid then s.serveReturns (some "already_exists")
  else if sid ≤ s.lastSeen then s.serveReturns (some "already_used")
  else
    let s := { s with lastSeen := sid }
    if s.closing then (s, rejectFrame sid codeUnavailable "server is shutting down")
    else if rev != 0 && rev != 1 then (s, rejectFrame sid codeUnavailable "unsupported revision")
    else
      match Method.resolve cfg.services method with
      | .malformed => (s, rejectFrame sid codeInvalidArgument "not well-formed")
      | .unimplemented => (s, rejectFrame sid codeUnimplemented "not implemented")
      | .found _ f =>
        let (unary, cs, ss) : Bool × Bool × Bool := match f with
          | .unary _ => (true, false, false)
          | .stream _ cs ss => (false, cs, ss)
        let fc := rev == 1
        let st : SStream α :=
          { cs := cs, ss := ss, unary := unary, fc := fc, rcv := RcvQ.init cfg.W, win := wrap32 win,
            deadline := (mdTimeout md).map (· + s.now),
            hstatus := if unary then .decoding else .running }
        let ev := s!"entered {sid} {if unary then "unary" else "stream"}"
        if unary then
          let (st', o) := st.startRecv sid
          ({ s with streams := s.streams ++ [(sid, st')] }, o)
        else
          ({ s with streams := s.streams ++ [(sid, st)] }, { events := [ev] })

/-- one frame taken from the carrier by the receive loop -/
def Srv.onFrame {α} (cfg : SCfg) (s : Srv α) (sid : Sid) (f : C2S α) : Srv α × Out α :=
  if s.returned.isSome then (s, {})
  else
    match f with
    | .newStream method md rev win => s.createStream cfg sid method md rev win
    | f =>
      match s.getStream sid with
      | some st =>
        let (st', o) := st.onFrame cfg sid f
        (s.setAny sid st', o)
      | none =>
        if sid ≤ s.lastSeen then (s, {})
        else s.serveReturns (some "never_created")

/-- a handler call on the stream object of `sid` -/
def Srv.onCall {α} (cfg : SCfg) (s : Srv α) (sid : Sid) (c : HCall α) : Srv α × Out α :=
  match s.getAny sid with
  | none => (s, { events := [s!"no-such-stream {sid}"] })
  | some st =>
    let (st', o) := st.onCall cfg sid c
    (s.setAny sid st', o)

/-- the clock advances: expired handler deadlines end their contexts -/
def Srv.tick {α} (s : Srv α) (d : Nat) : Srv α × Out α :=
  let now := s.now + d
  let rec go : List (Sid × SStream α) → List (Sid × SStream α) × Out α
    | [] => ([], {})
    | (sid, st) :: rest =>
      let (st', o) : SStream α × Out α :=
        match st.deadline with
        | some dl => if dl ≤ now then st.cancelCtx sid .deadline else (st, {})
        | none => (st, {})
      let (rest', o') := go rest
      ((sid, st') :: rest', o.add o')
  let (streams, o) := go s.streams
  ({ s with now := now, streams := streams }, o)

/-- start of `serve`: the settings frame -/
def Srv.start {α} (cfg : SCfg) : Srv α × Out α :=
  ({}, if cfg.sendSettings then { frames := [(-1, .settings cfg.W cfg.revs)] } else {})

end TunnelModel.LFrame

namespace TunnelModel.LFrame

/-- every stimulus of the server endpoint -/
inductive SStim (α : Type) where
  | frame (sid : Sid) (f : C2S α)      -- the receive loop takes one frame (any frame a peer can send)
  | call (sid : Sid) (c : HCall α)     -- a handler makes a call
  | tick (d : Nat)                     -- the clock advances
  | closing (b : Bool)                 -- the shutdown flag changes
  | carrierEnds (err : Option String)  -- `Recv` returns io.EOF (`none`) or an error

def Srv.step {α} (cfg : SCfg) (s : Srv α) : SStim α → Srv α × Out α
  | .frame sid f => s.onFrame cfg sid f
  | .call sid c => s.onCall cfg sid c
  | .tick d => s.tick d
  | .closing b => ({ s with closing := b }, {})
  | .carrierEnds err => if s.returned.isSome then (s, {}) else s.serveReturns err

/-- run a list of stimuli from a state, collecting the outputs -/
def Srv.run {α} (cfg : SCfg) : Srv α → List (SStim α) → Srv α × List (Out α)
  | s, [] => (s, [])
  | s, x :: xs =>
    let (s1, o) := s.step cfg x
    let (s2, os) := Srv.run cfg s1 xs
    (s2, o :: os)

end TunnelModel.LFrame
