import TunnelModel.LFrame.Server
import TunnelModel.LFrame.Client
/-
  Per-stream event runs and the ghost histories the data-integrity statements
  (C01) talk about: what was submitted, what was put on the wire, what was fed
  to the peer, what was delivered to the application.  Definitions only.
-/
namespace TunnelModel.LFrame
open TunnelModel.Framing

/-- the data carried by a frame, as the reader sees it (`none` for non-data frames) -/
def dataOfC2S {α} : C2S α → Option (DFrame α)
  | .msg size d => some (.env size d)
  | .more d => some (.more d)
  | _ => none

def dataOfS2C {α} : S2C α → Option (DFrame α)
  | .msg size d => some (.env size d)
  | .more d => some (.more d)
  | _ => none

/-- messages delivered to the application in a list of completions -/
def msgsOfDones {α} (ds : List (Sid × String × Res α)) : List (List α) :=
  ds.filterMap (fun d => match d.2.2 with | .msg m => some m | _ => none)

/-! ### server stream -/

/-- everything that can happen to one server stream object -/
inductive SEv (α : Type) where
  | frame (f : C2S α)       -- a frame routed to the stream (`acceptClientFrame`)
  | call (c : HCall α)      -- a handler call
  | ctx (e : CtxErr)        -- the stream context ends (deadline, tunnel tear-down)

def SStream.stepEv {α} (cfg : SCfg) (sid : Sid) (s : SStream α) : SEv α → SStream α × Out α
  | .frame f => s.onFrame cfg sid f
  | .call c => s.onCall cfg sid c
  | .ctx e => s.cancelCtx sid e

/-- run a list of events, collecting the outputs in order -/
def SStream.runEv {α} (cfg : SCfg) (sid : Sid) : SStream α → List (SEv α) → SStream α × List (Out α)
  | s, [] => (s, [])
  | s, e :: es =>
    let (s1, o) := s.stepEv cfg sid e
    let (s2, os) := SStream.runEv cfg sid s1 es
    (s2, o :: os)

/-- request data frames fed to the stream, in order -/
def SEv.fedData {α} (evs : List (SEv α)) : List (DFrame α) :=
  evs.filterMap (fun e => match e with | .frame f => dataOfC2S f | _ => none)

/-- request messages delivered to the handler, in order -/
def Out.deliveredMsgs {α} (outs : List (Out α)) : List (List α) :=
  outs.flatMap (fun o => msgsOfDones o.dones)

/-- response messages the handler submitted (`SendMsg` / unary reply), in order -/
def SEv.submitted {α} (evs : List (SEv α)) : List (List α) :=
  evs.filterMap (fun e => match e with
    | .call (.send m) => some m
    | .call (.reply m) => some m
    | _ => none)

/-- response data frames the stream put on the wire, in order -/
def Out.emittedData {α} (outs : List (Out α)) : List (DFrame α) :=
  outs.flatMap (fun o => o.frames.filterMap (fun f => dataOfS2C f.2))

/-! ### client stream -/

inductive CEv (α : Type) where
  | frame (f : S2C α)
  | call (c : CCall α)
  | ctx (e : CtxErr)        -- deadline expiry / channel close (the application's own cancel is `call .cancel`)

def CStream.stepEv {α} (cfg : CCfg) (sid : Sid) (s : CStream α) : CEv α → CStream α × COut α
  | .frame f => s.onFrame cfg sid f
  | .call c => s.onCall cfg sid c
  | .ctx e => s.ctxCancelled sid e

def CStream.runEv {α} (cfg : CCfg) (sid : Sid) : CStream α → List (CEv α) → CStream α × List (COut α)
  | s, [] => (s, [])
  | s, e :: es =>
    let (s1, o) := s.stepEv cfg sid e
    let (s2, os) := CStream.runEv cfg sid s1 es
    (s2, o :: os)

def CEv.fedData {α} (evs : List (CEv α)) : List (DFrame α) :=
  evs.filterMap (fun e => match e with | .frame f => dataOfS2C f | _ => none)

def COut.deliveredMsgs {α} (outs : List (COut α)) : List (List α) :=
  outs.flatMap (fun o => msgsOfDones o.dones)

def CEv.submitted {α} (evs : List (CEv α)) : List (List α) :=
  evs.filterMap (fun e => match e with | .call (.send m) => some m | _ => none)

def COut.emittedData {α} (outs : List (COut α)) : List (DFrame α) :=
  outs.flatMap (fun o => o.frames.filterMap (fun f => dataOfC2S f.2))

/-! ### legality of the application's sends (grpc-go stream contract):
    one send at a time, and no send after a send that failed -/

def sendFailedIn {α} (ds : List (Sid × String × Res α)) : Bool :=
  ds.any (fun d => d.2.1 == "send" && (match d.2.2 with | .ok => false | _ => true))

/-- server side: thread the state; every `send`/`reply` must come when no send
    is pending and none has failed (a `send` refused by the call-shape guard
    counts as failed) -/
def SStream.legalSends {α} (cfg : SCfg) (sid : Sid) : SStream α → Bool → List (SEv α) → Bool
  | _, _, [] => true
  | s, failed, e :: es =>
    let isSend := match e with | .call (.send _) => true | .call (.reply _) => true | _ => false
    let ok := !isSend || (s.psend.isNone && !failed)
    let (s1, o) := s.stepEv cfg sid e
    ok && SStream.legalSends cfg sid s1 (failed || sendFailedIn o.dones) es

def CStream.legalSends {α} (cfg : CCfg) (sid : Sid) : CStream α → Bool → List (CEv α) → Bool
  | _, _, [] => true
  | s, failed, e :: es =>
    let isSend := match e with | .call (.send _) => true | _ => false
    let ok := !isSend || (s.psend.isNone && !failed)
    let (s1, o) := s.stepEv cfg sid e
    ok && CStream.legalSends cfg sid s1 (failed || sendFailedIn o.dones) es

end TunnelModel.LFrame
