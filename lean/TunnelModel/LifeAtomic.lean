/-
  L-atomic model of the life cycle of `ReverseTunnelServer` (reverse_server.go:
  `Serve` / `addInstance`, `Stop`, `GracefulStop`) under concurrency.

  `n` Serve calls `i = 0 .. n-1`, `a` Stop calls `j`, `b` GracefulStop calls `k`,
  all concurrent.  One action = one critical section of `s.mu`, or one blocking
  point (`wg.Wait()`, the end of `serveTunnel`), or one environment event.

  * Serve `i`

        start ──openTunnel i ok──▶ opened | failedOpen          (`OpenReverseTunnel`: network)
        opened ──enroll i──▶ serving | refused                   (critical section of `addInstance`:
                                                                  `state ≥ closing` → Unavailable, else
                                                                  `wg.Add(1)`, `instances[stream] = {}`)
        serving ──tunnelEnds i──▶ ended                         (`serveTunnel` returns; enabled iff our
                                                                  `CloseSend` hung the tunnel up (`i ∈ hungUp`)
                                                                  or the peer did (`peer = true`))
        ended ──wgDone i──▶ returned                            (deferred `wg.Done()`)

    `peerHangup i`: the network server closes the tunnel — an ENVIRONMENT action, enabled
    while `serving`, at most once per tunnel.

  * Stop `j`:          start ──stopCS j──▶ waiting ──stopWait j [wg = 0]──▶ returned
    `stopCS j` is the critical section: `state = closed` → nothing; else `state := closed` and
    `CloseSend` on every instance known NOW (`hungUp := instances ∪ hungUp`).
  * GracefulStop `k`:  start ──gsCS k──▶ waiting ──gsWait k [wg = 0]──▶ returned
    `gsCS k`: `state = active` → `state := closing`; nothing else.

  The mutex is implicit: a critical section is one action.  `instances` is never
  pruned (as in the Go code).  `wg` is a stored counter (`wgDone` is the truncated
  `wg - 1`; that it never underflows is part of the invariant, `wg` = number of
  Serve calls in `serving` / `ended`).

  Two FAULTY variants, switched on by parameters of `step`, exist only for the
  counter-examples:

  * `guarded = false`: `addInstance` reads `state` BEFORE taking the lock — `enroll i` is split
    into `check i` (reads the state: `≥ closing` → `refused`, else → `checked`) and `add i`
    (from `checked`: `wg += 1`, `instances += i`, → `serving`, without looking again);
  * `stopGuardNotActive = true`: the guard of `Stop` is `state != stateActive` (copied from
    `GracefulStop`), so a Stop after a GracefulStop does nothing.
-/
namespace TunnelModel.LifeAtomic

/-- `s.state`: active < closing < closed -/
inductive SState where
  | active
  | closing
  | closed
  deriving DecidableEq, Repr

def SState.rank : SState → Nat
  | .active => 0
  | .closing => 1
  | .closed => 2

/-- program counter of a Serve call -/
inductive SPc where
  | start
  | opened
  | failedOpen                -- returned (false, err): the tunnel could not be opened
  | checked                   -- FAULTY (`guarded = false`) only: saw `state = active`, not yet added
  | refused                   -- returned (false, Unavailable)
  | serving                   -- inside `serveTunnel`
  | ended                     -- `serveTunnel` has returned, `wg.Done()` not yet run
  | returned                  -- returned (true, err)
  deriving DecidableEq, Repr

/-- the call holds a unit of the wait group: between `wg.Add(1)` and `wg.Done()` -/
def SPc.running : SPc → Bool
  | .serving | .ended => true
  | _ => false

/-- the call went through `addInstance` successfully -/
def SPc.admitted : SPc → Bool
  | .serving | .ended | .returned => true
  | _ => false

/-- the call has returned to its caller -/
def SPc.finished : SPc → Bool
  | .failedOpen | .refused | .returned => true
  | _ => false

structure Serve where
  pc : SPc
  peer : Bool                 -- the peer (network server) has hung up this tunnel
  deriving DecidableEq, Repr

/-- program counter of a Stop / GracefulStop call -/
inductive WPc where
  | start
  | waiting                   -- past the critical section, parked in the deferred `wg.Wait()`
  | returned
  deriving DecidableEq, Repr

structure St where
  state : SState
  wg : Nat                    -- counter of `s.wg`
  instances : List Nat        -- `s.instances` (a set: Serve ids), only grows
  hungUp : List Nat           -- instances on which `CloseSend` was called
  serves : List Serve         -- indexed by Serve id
  stops : List WPc            -- indexed by Stop id
  gstops : List WPc           -- indexed by GracefulStop id
  deriving DecidableEq, Repr

def init (n a b : Nat) : St :=
  { state := .active, wg := 0, instances := [], hungUp := [],
    serves := List.replicate n ⟨.start, false⟩,
    stops := List.replicate a .start, gstops := List.replicate b .start }

inductive Act where
  | openTunnel (i : Nat) (ok : Bool)   -- `s.stub.OpenReverseTunnel`
  | enroll (i : Nat)                    -- `addInstance`, one critical section (guarded only)
  | check (i : Nat)                    -- FAULTY: the unlocked read of `s.state`
  | add (i : Nat)                      -- FAULTY: the rest of `addInstance`
  | peerHangup (i : Nat)               -- ENVIRONMENT: the network server closes the tunnel
  | tunnelEnds (i : Nat)               -- `serveTunnel` returns
  | wgDone (i : Nat)                   -- deferred `s.wg.Done()`
  | stopCS (j : Nat)                   -- critical section of `Stop`
  | stopWait (j : Nat)                 -- deferred `s.wg.Wait()` of `Stop` returns
  | gsCS (k : Nat)                     -- critical section of `GracefulStop`
  | gsWait (k : Nat)                   -- deferred `s.wg.Wait()` of `GracefulStop` returns
  deriving DecidableEq, Repr

/-- the guard at the top of the critical section of `Stop` -/
def stopSkips (stopGuardNotActive : Bool) (st : SState) : Bool :=
  if stopGuardNotActive then st != .active else st == .closed

/-- `none` = the action is not enabled -/
def step (guarded stopGuardNotActive : Bool) (s : St) : Act → Option St
  | .openTunnel i ok =>
    match s.serves[i]? with
    | some ⟨.start, p⟩ =>
      some { s with serves := s.serves.set i ⟨if ok then .opened else .failedOpen, p⟩ }
    | _ => none
  | .enroll i =>
    if guarded then
      match s.serves[i]? with
      | some ⟨.opened, p⟩ =>
        if s.state = .active then
          some { s with wg := s.wg + 1, instances := i :: s.instances,
                        serves := s.serves.set i ⟨.serving, p⟩ }
        else some { s with serves := s.serves.set i ⟨.refused, p⟩ }
      | _ => none
    else none
  | .check i =>
    if guarded then none else
      match s.serves[i]? with
      | some ⟨.opened, p⟩ =>
        some { s with serves := s.serves.set i ⟨if s.state = .active then .checked else .refused, p⟩ }
      | _ => none
  | .add i =>
    if guarded then none else
      match s.serves[i]? with
      | some ⟨.checked, p⟩ =>
        some { s with wg := s.wg + 1, instances := i :: s.instances,
                      serves := s.serves.set i ⟨.serving, p⟩ }
      | _ => none
  | .peerHangup i =>
    match s.serves[i]? with
    | some ⟨.serving, false⟩ => some { s with serves := s.serves.set i ⟨.serving, true⟩ }
    | _ => none
  | .tunnelEnds i =>
    match s.serves[i]? with
    | some ⟨.serving, p⟩ =>
      if p || s.hungUp.contains i then some { s with serves := s.serves.set i ⟨.ended, p⟩ } else none
    | _ => none
  | .wgDone i =>
    match s.serves[i]? with
    | some ⟨.ended, p⟩ => some { s with wg := s.wg - 1, serves := s.serves.set i ⟨.returned, p⟩ }
    | _ => none
  | .stopCS j =>
    match s.stops[j]? with
    | some .start =>
      if stopSkips stopGuardNotActive s.state then some { s with stops := s.stops.set j .waiting }
      else some { s with state := .closed, hungUp := s.instances ++ s.hungUp,
                         stops := s.stops.set j .waiting }
    | _ => none
  | .stopWait j =>
    match s.stops[j]? with
    | some .waiting => if s.wg = 0 then some { s with stops := s.stops.set j .returned } else none
    | _ => none
  | .gsCS k =>
    match s.gstops[k]? with
    | some .start =>
      some { s with state := if s.state = .active then .closing else s.state,
                    gstops := s.gstops.set k .waiting }
    | _ => none
  | .gsWait k =>
    match s.gstops[k]? with
    | some .waiting => if s.wg = 0 then some { s with gstops := s.gstops.set k .returned } else none
    | _ => none

def run (guarded stopGuardNotActive : Bool) (s : St) : List Act → Option St
  | [] => some s
  | a :: as => match step guarded stopGuardNotActive s a with
    | some s' => run guarded stopGuardNotActive s' as
    | none => none

/-! ### Observations -/

/-- number of Serve calls that hold a unit of the wait group -/
def nRunning : List Serve → Nat
  | [] => 0
  | x :: r => (if x.pc.running then 1 else 0) + nRunning r

/-- every call of every kind has returned -/
def allReturned (s : St) : Bool :=
  s.serves.all (·.pc.finished) && s.stops.all (· == .returned) && s.gstops.all (· == .returned)

/-- every action with call ids in range -/
def allActs (n a b : Nat) : List Act :=
  (List.range n).flatMap (fun i =>
    [.openTunnel i true, .openTunnel i false, .enroll i, .check i, .add i,
     .peerHangup i, .tunnelEnds i, .wgDone i]) ++
  (List.range a).flatMap (fun j => [.stopCS j, .stopWait j]) ++
  (List.range b).flatMap (fun k => [.gsCS k, .gsWait k])

/-- the enabled actions of a state (complete: `Proofs.LifeAtomic.mem_enabled`) -/
def enabled (guarded stopGuardNotActive : Bool) (s : St) : List Act :=
  (allActs s.serves.length s.stops.length s.gstops.length).filter
    (fun a => (step guarded stopGuardNotActive s a).isSome)

/-! ### Termination measure: actions the calls can still perform -/

def SPc.rank : SPc → Nat
  | .start => 5
  | .opened => 4
  | .checked => 3
  | .serving => 2
  | .ended => 1
  | .failedOpen | .refused | .returned => 0

/-- own actions still to come, plus the peer's hang-up if it can still happen -/
def Serve.rank (x : Serve) : Nat :=
  x.pc.rank + (if x.peer then 0 else match x.pc with
    | .start | .opened | .checked | .serving => 1
    | _ => 0)

def WPc.rank : WPc → Nat
  | .start => 2
  | .waiting => 1
  | .returned => 0

def totalS : List Serve → Nat
  | [] => 0
  | x :: r => x.rank + totalS r

def totalW : List WPc → Nat
  | [] => 0
  | x :: r => x.rank + totalW r

def remaining (s : St) : Nat := totalS s.serves + totalW s.stops + totalW s.gstops

end TunnelModel.LifeAtomic
