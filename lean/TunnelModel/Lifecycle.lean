import TunnelModel.RoundRobin
/-
  API-granular model of the reverse-tunnel registry of `TunnelServiceHandler`
  (handler.go: `reverse`, `reverseByKey`, `openReverseTunnel`, `unregister`,
  `AsChannel`, `KeyAsChannel`, `AllReverseTunnels`) and of the
  `ReverseTunnelServer` state machine (reverse_server.go).

  One step = one public API event run to quiescence.  Tunnels and keys are
  natural numbers (the harness maps its tunnel ids and affinity keys to them;
  key 0 is the nil key).
-/
namespace TunnelModel.Lifecycle
open TunnelModel.RoundRobin

structure Registry where
  global : Pool := Pool.empty
  byKey : List (Nat × Pool) := []
  deriving Repr

def Registry.poolOf (r : Registry) (k : Nat) : Option Pool := r.byKey.lookup k

def setPool (k : Nat) (p : Pool) : List (Nat × Pool) → List (Nat × Pool)
  | [] => [(k, p)]
  | (k', p') :: rest => if k' = k then (k, p) :: rest else (k', p') :: setPool k p rest

/-- a reverse tunnel opens: registered in the global list, then in its key's pool
    (`reverseChannelsForKey` creates the pool on first use) -/
def Registry.open (r : Registry) (t k : Nat) : Registry :=
  let g := r.global.add t k
  let p := ((r.poolOf k).getD Pool.empty).add t k
  { global := g, byKey := setPool k p r.byKey }

/-- a reverse tunnel ends (from either end): removed from both levels -/
def Registry.close (r : Registry) (t : Nat) : Registry :=
  match r.global.remove t with
  | (_, none) => r
  | (g, some k) =>
    match r.poolOf k with
    | none => { r with global := g }
    | some p => { global := g, byKey := setPool k (p.remove t).1 r.byKey }

def Registry.pickAll (r : Registry) : Registry × Option Nat :=
  let (g, res) := r.global.pick
  ({ r with global := g }, res)

def Registry.pickKey (r : Registry) (k : Nat) : Registry × Option Nat :=
  match r.poolOf k with
  | none => (r, none)
  | some p =>
    let (p', res) := p.pick
    ({ r with byKey := setPool k p' r.byKey }, res)

def Registry.readyAll (r : Registry) : Bool := r.global.ready
def Registry.readyKey (r : Registry) (k : Nat) : Bool := ((r.poolOf k).map Pool.ready).getD false

/-- would `WaitForReady` block?  (`waitForKeyReady` creates the key's pool if
    it does not exist yet; its latch is then open) -/
def Registry.waitBlocksAll (r : Registry) : Bool := !r.global.latchClosed
def Registry.waitBlocksKey (r : Registry) (k : Nat) : Bool := !((r.poolOf k).map (·.latchClosed)).getD false

def Registry.all (r : Registry) : List Nat := r.global.all

/-- the set of open tunnels with their keys, as a specification state -/
abbrev OpenSet := List (Nat × Nat)

/-! ### reverse tunnel server (reverse_server.go) -/

inductive RState where
  | active | closing | closed
  deriving DecidableEq, Repr

structure RServer where
  state : RState := .active
  serving : List Nat := []        -- Serve calls that are running (tunnel ids)
  deriving Repr

/-- `Serve`: refused once shutdown began -/
def RServer.serve (s : RServer) (t : Nat) : RServer × Bool :=
  if s.state != .active then (s, false) else ({ s with serving := s.serving ++ [t] }, true)

/-- a Serve call returns (its tunnel ended) -/
def RServer.served (s : RServer) (t : Nat) : RServer := { s with serving := s.serving.filter (· != t) }

/-- `Stop`: closed; every instance is half-closed (their Serve calls then return) -/
def RServer.stop (s : RServer) : RServer := { s with state := .closed }

/-- `GracefulStop`: closing (only from active) -/
def RServer.gracefulStop (s : RServer) : RServer :=
  if s.state == .active then { s with state := .closing } else s

def RServer.isClosing (s : RServer) : Bool := s.state != .active
def RServer.waitDone (s : RServer) : Bool := s.serving.isEmpty   -- `wg.Wait()` returns

end TunnelModel.Lifecycle
