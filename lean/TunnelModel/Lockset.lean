/-!
  # A small event model of concurrent executions (Go-memory-model style)

  DEFINITIONS ONLY.  The theorems are in `Proofs/Lemmas/Lockset.lean`.

  An execution is a `Trace`: a total order (a list) of the events executed by
  all goroutines.  The events are mutex acquire / release, read / write of a
  shared variable, `close(c)` of a channel, a receive that observes the channel
  closed, and the `go` statement.  Channels are only used as publication
  barriers (closed once, received from after the close).

  * `holder tr l`       : who holds mutex `l` after executing `tr`;
  * `WF tr`             : well-formedness (mutual exclusion is respected,
                          only the holder releases, a `recv` observes an earlier
                          `close`, a started goroutine has no earlier event);
  * `holds tr i t l`    : `t` holds `l` when event number `i` executes
                          (i.e. BEFORE event `i` takes effect);
  * `HB tr i j`         : happens-before on event indices (program order,
                          unlock→lock, close→recv, go→first event, transitivity);
  * `conflict tr i j x` : events `i`, `j` are conflicting accesses to `x`;
  * `Protected tr x`    : the lock discipline — one mutex is held at every access
                          to `x`.

  All the predicates on a concrete trace except `HB` (an inductive closure) and
  the outer `∃ l` of `Protected` are decidable, so concrete traces can be
  checked by `decide`.
-/

namespace TunnelModel.Lockset

/-- goroutine -/
abbrev Tid := Nat
/-- mutex -/
abbrev Lck := Nat
/-- shared variable -/
abbrev Var := Nat
/-- channel used only as a publication barrier (closed once, received from after the close) -/
abbrev Chn := Nat

inductive Ev where
  | acq (t : Tid) (l : Lck)
  | rel (t : Tid) (l : Lck)
  | rd (t : Tid) (x : Var)
  | wr (t : Tid) (x : Var)
  /-- `close(c)` -/
  | close (t : Tid) (c : Chn)
  /-- a receive that observes the channel closed -/
  | recv (t : Tid) (c : Chn)
  /-- goroutine `t` starts goroutine `u` -/
  | go (t u : Tid)
  deriving DecidableEq, Repr

/-- The goroutine executing the event. -/
def Ev.tid : Ev → Tid
  | .acq t _ => t
  | .rel t _ => t
  | .rd t _ => t
  | .wr t _ => t
  | .close t _ => t
  | .recv t _ => t
  | .go t _ => t

/-- The shared variable accessed by the event, if it is a `rd` or a `wr`. -/
def Ev.var? : Ev → Option Var
  | .rd _ x => some x
  | .wr _ x => some x
  | _ => none

def Ev.isWrite : Ev → Bool
  | .wr _ _ => true
  | _ => false

/-- `e` is `close _ c`. -/
def Ev.isClose (c : Chn) : Ev → Bool
  | .close _ c' => decide (c' = c)
  | _ => false

/-- A total order of the events of one execution. -/
abbrev Trace := List Ev

/-- The effect of one event on the holder of mutex `l`. -/
def lockStep (l : Lck) (h : Option Tid) : Ev → Option Tid
  | .acq t l' => if l' = l then some t else h
  | .rel _ l' => if l' = l then none else h
  | _ => h

/-- Who holds `l` after executing `tr`. -/
def holder (tr : Trace) (l : Lck) : Option Tid :=
  tr.foldl (lockStep l) none

/-- Event `e` is enabled after the prefix `pre`. -/
def Ok (pre : Trace) : Ev → Prop
  | .acq _ l => holder pre l = none
  | .rel t l => holder pre l = some t
  | .recv _ c => ∃ e ∈ pre, e.isClose c = true
  | .go t u => t ≠ u ∧ ∀ e ∈ pre, e.tid ≠ u
  | .rd _ _ => True
  | .wr _ _ => True
  | .close _ _ => True

instance (pre : Trace) : (e : Ev) → Decidable (Ok pre e)
  | .acq _ l => inferInstanceAs (Decidable (holder pre l = none))
  | .rel t l => inferInstanceAs (Decidable (holder pre l = some t))
  | .recv _ c => inferInstanceAs (Decidable (∃ e ∈ pre, e.isClose c = true))
  | .go t u => inferInstanceAs (Decidable (t ≠ u ∧ ∀ e ∈ pre, e.tid ≠ u))
  | .rd _ _ => inferInstanceAs (Decidable True)
  | .wr _ _ => inferInstanceAs (Decidable True)
  | .close _ _ => inferInstanceAs (Decidable True)

/-- Well-formedness: every event is enabled after the prefix that precedes it. -/
def WF (tr : Trace) : Prop :=
  ∀ (i : Nat) (h : i < tr.length), Ok (tr.take i) tr[i]

instance (tr : Trace) : Decidable (WF tr) :=
  inferInstanceAs (Decidable (∀ (i : Nat) (h : i < tr.length), Ok (tr.take i) tr[i]))

/-- Thread `t` holds `l` when event number `i` executes. -/
def holds (tr : Trace) (i : Nat) (t : Tid) (l : Lck) : Prop :=
  holder (tr.take i) l = some t

instance (tr : Trace) (i : Nat) (t : Tid) (l : Lck) : Decidable (holds tr i t l) :=
  inferInstanceAs (Decidable (holder (tr.take i) l = some t))

/-- Happens-before on event indices. -/
inductive HB (tr : Trace) : Nat → Nat → Prop where
  /-- program order: both events exist and are executed by the same goroutine -/
  | po {i j : Nat} {t : Tid} :
      i < j → (tr[i]?).map Ev.tid = some t → (tr[j]?).map Ev.tid = some t → HB tr i j
  /-- an unlock of `l` is synchronized before every later lock of `l` -/
  | lock {i j : Nat} {t u : Tid} {l : Lck} :
      i < j → tr[i]? = some (.rel t l) → tr[j]? = some (.acq u l) → HB tr i j
  /-- `close(c)` is synchronized before a receive that observes the close -/
  | chan {i j : Nat} {t u : Tid} {c : Chn} :
      i < j → tr[i]? = some (.close t c) → tr[j]? = some (.recv u c) → HB tr i j
  /-- the `go` statement is synchronized before every event of the started goroutine -/
  | go {i j : Nat} {t u : Tid} :
      i < j → tr[i]? = some (.go t u) → (tr[j]?).map Ev.tid = some u → HB tr i j
  | trans {i j k : Nat} : HB tr i j → HB tr j k → HB tr i k

/-- Events `i` and `j` both access `x`, at least one of them writes, and they are
executed by different goroutines. -/
def conflict (tr : Trace) (i j : Nat) (x : Var) : Prop :=
  ∃ a b, tr[i]? = some a ∧ tr[j]? = some b ∧ a.var? = some x ∧ b.var? = some x ∧
    (a.isWrite = true ∨ b.isWrite = true) ∧ a.tid ≠ b.tid

/-- Mutex `l` is held by the accessing goroutine at every access to `x`. -/
def ProtectedBy (tr : Trace) (x : Var) (l : Lck) : Prop :=
  ∀ (i : Nat) (h : i < tr.length), tr[i].var? = some x → holds tr i tr[i].tid l

instance (tr : Trace) (x : Var) (l : Lck) : Decidable (ProtectedBy tr x l) :=
  inferInstanceAs (Decidable
    (∀ (i : Nat) (h : i < tr.length), tr[i].var? = some x → holds tr i tr[i].tid l))

/-- The lock discipline: some mutex is held at every access (rd/wr) to `x`. -/
def Protected (tr : Trace) (x : Var) : Prop :=
  ∃ l, ProtectedBy tr x l

end TunnelModel.Lockset
