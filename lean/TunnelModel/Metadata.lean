/-
  Metadata and status text on the wire (tunnel.proto: `Metadata`, `CloseStream`;
  tunnel_server.go `toProto` / `fromProto`).  The protocol types metadata values
  and status messages as proto3 `string`s, which must be valid UTF-8 to be
  marshalled; gRPC itself allows arbitrary bytes in `-bin` metadata values.
  Strings are lists of bytes (`Nat`).
-/
namespace TunnelModel.Metadata

abbrev Str := List Nat
abbrev BMD := List (Str × List Str)      -- key ↦ values

/-- Go's `utf8.Valid` (RFC 3629: no overlongs, no surrogates, max U+10FFFF) -/
def validUTF8 : Str → Bool
  | [] => true
  | b0 :: rest =>
    if b0 < 0x80 then validUTF8 rest
    else if 0xC2 ≤ b0 && b0 ≤ 0xDF then
      match rest with
      | b1 :: r => (0x80 ≤ b1 && b1 ≤ 0xBF) && validUTF8 r
      | _ => false
    else if 0xE0 ≤ b0 && b0 ≤ 0xEF then
      match rest with
      | b1 :: b2 :: r =>
        let lo := if b0 == 0xE0 then 0xA0 else 0x80
        let hi := if b0 == 0xED then 0x9F else 0xBF
        (lo ≤ b1 && b1 ≤ hi) && (0x80 ≤ b2 && b2 ≤ 0xBF) && validUTF8 r
      | _ => false
    else if 0xF0 ≤ b0 && b0 ≤ 0xF4 then
      match rest with
      | b1 :: b2 :: b3 :: r =>
        let lo := if b0 == 0xF0 then 0x90 else 0x80
        let hi := if b0 == 0xF4 then 0x8F else 0xBF
        (lo ≤ b1 && b1 ≤ hi) && (0x80 ≤ b2 && b2 ≤ 0xBF) && (0x80 ≤ b3 && b3 ≤ 0xBF) && validUTF8 r
      | _ => false
    else false
termination_by s => s.length

/-- can a frame carrying this metadata be marshalled? -/
def marshalable (md : BMD) : Bool := md.all (fun (k, vs) => validUTF8 k && vs.all validUTF8)

/-- `toProto` then `fromProto`: keys and value lists are carried unchanged -/
def toProto (md : BMD) : BMD := md
def fromProto (md : BMD) : BMD := md

/-- what the peer obtains: the metadata, if the frame could be encoded; a frame
    that cannot be encoded makes the carrier `Send` fail, which ends the tunnel -/
def transfer (md : BMD) : Option BMD := if marshalable md then some (fromProto (toProto md)) else none

end TunnelModel.Metadata
