/-
  Method-name handling in `createStream` and `findMethod` (tunnel_server.go).
  Names are lists of bytes (`Nat`); '/' is 47.
-/
namespace TunnelModel.Method

abbrev Name := List Nat

/-- `strings.SplitN(name, "/", 2)` after the optional leading slash has been
    stripped: `none` = fewer than two parts ("not a well-formed method name") -/
def splitAtSlash : Name → Option (Name × Name)
  | [] => none
  | c :: cs =>
    if c = 47 then some ([], cs)
    else match splitAtSlash cs with
      | none => none
      | some (a, b) => some (c :: a, b)

/-- strip one leading '/', guarded against the empty name (fix D3) -/
def stripSlash : Name → Name
  | 47 :: cs => cs
  | n => n

def splitMethod (n : Name) : Option (Name × Name) := splitAtSlash (stripSlash n)

/-- what a service descriptor offers: unary method names and stream names
    with their (clientStreams, serverStreams) flags, in declaration order -/
structure ServiceDesc where
  methods : List Name
  streams : List (Name × Bool × Bool)

inductive Found where
  | unary (idx : Nat)
  | stream (idx : Nat) (cs ss : Bool)
  deriving DecidableEq, Repr

def findIdx {β} (p : β → Bool) : List β → Nat → Option (Nat × β)
  | [], _ => none
  | x :: xs, i => if p x then some (i, x) else findIdx p xs (i + 1)

/-- `findMethod`: unary descriptors first, then stream descriptors, first match wins -/
def findMethod (sd : ServiceDesc) (m : Name) : Option Found :=
  match findIdx (fun n => n == m) sd.methods 0 with
  | some (i, _) => some (.unary i)
  | none =>
    match findIdx (fun e => e.1 == m) sd.streams 0 with
    | some (i, (_, cs, ss)) => some (.stream i cs ss)
    | none => none

/-- outcome of the method part of `createStream` -/
inductive Resolve where
  | malformed          -- InvalidArgument
  | unimplemented      -- Unimplemented (unknown service or method)
  | found (svc : Name) (f : Found)
  deriving DecidableEq, Repr

def resolve (services : List (Name × ServiceDesc)) (n : Name) : Resolve :=
  match splitMethod n with
  | none => .malformed
  | some (svc, m) =>
    match services.lookup svc with
    | none => .unimplemented
    | some sd =>
      match findMethod sd m with
      | none => .unimplemented
      | some f => .found svc f

end TunnelModel.Method
