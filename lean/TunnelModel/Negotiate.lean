/-
  Protocol-revision negotiation: the loop in `recvLoop` (tunnel_client.go)
  over `settings.supported_protocol_revisions`, `supportedRevisions()`
  (options.go), and the header rule that decides whether settings are
  exchanged at all (handler.go, reverse_server.go, tunnel_client.go).
-/
namespace TunnelModel.Negotiate

/-- `tunnelOpts.supportedRevisions` -/
def supportedRevisions (disableFlowControl : Bool) : List Int :=
  if disableFlowControl then [0] else [0, 1]

/-- the `for _, rev := range …` loop: state = (useRevision, supported) -/
def selectLoop (client : List Int) : List Int → Int × Bool → Int × Bool
  | [], st => st
  | rev :: rest, (useRev, supported) =>
    if client.contains rev then
      selectLoop client rest (if rev > useRev then rev else useRev, true)
    else selectLoop client rest (useRev, supported)

/-- what `recvLoop` decides from a settings frame's revision list:
    `none` = "protocol error: server support revisions …" (tunnel closed).
    An empty list means revision zero only (tunnel.proto, Settings). -/
def select (client : List Int) (server : List Int) : Option Int :=
  let server' := if server.isEmpty then [0] else server
  let (useRev, supported) := selectLoop client server' (0, false)
  if supported then some useRev else none

/-- specification: the highest revision present in both lists (an empty
    server list stands for `[0]`), or nothing if there is none in common -/
def common (client server : List Int) : List Int :=
  (if server.isEmpty then [0] else server).filter (fun r => client.contains r)

def spec (client server : List Int) : Option Int :=
  match common client server with
  | [] => none
  | r :: rs => some (rs.foldl max r)

/-- How an endpoint presents itself when the tunnel is opened. -/
inductive Peer where
  | enabled    -- current version, flow control allowed
  | disabled   -- current version, `WithDisableFlowControl` / `DisableFlowControl`
  | legacy     -- revision-zero implementation: no negotiate header
  deriving DecidableEq, Repr

def Peer.advertises : Peer → Bool
  | .legacy => false
  | _ => true

def Peer.revisions : Peer → List Int
  | .enabled => supportedRevisions false
  | .disabled => supportedRevisions true
  | .legacy => [0]

/-- the serving end (`serveTunnel`) sends settings iff the calling end's
    negotiate header was present; a legacy serving end never does -/
def settingsSent (client server : Peer) : Bool :=
  match server with
  | .legacy => false
  | _ => client.advertises

/-- the calling end (`recvLoop`) awaits settings iff the serving end's
    negotiate header was present; a legacy calling end never does -/
def settingsAwaited (client server : Peer) : Bool :=
  match client with
  | .legacy => false
  | _ => server.advertises

/-- revision used for new streams on the tunnel (`none` = the tunnel fails) -/
def revisionUsed (client server : Peer) : Option Int :=
  if settingsAwaited client server then select client.revisions server.revisions
  else some 0

end TunnelModel.Negotiate
