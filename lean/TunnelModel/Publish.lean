/-
  L-atomic model of RESULT PUBLICATION on a client stream (tunnel_client.go,
  `tunnelClientStream.finishStream` / `Trailer` / `RecvMsg`): whoever sees the end of
  the RPC sees its trailers.

  Goroutines

  * `n` FINISHERS `F i`, each running `finishStream(err i, tr i)` (the receive loop with the
    server's close frame and its trailers, the context watcher with a local cancel and nil
    trailers, ...), one action per statement:

        start ──cas i──▶ won | retFalse            (f1) `done.CompareAndSwap(nil, &errHolder{err i})`:
                                                        wins iff `done` is unset; a loser returns false
        won ──remove i──▶ removed                  (f2) `ch.removeStream`
        removed ──lockMeta i [metaMu free]──▶ locked       (f3) `metaMu.Lock()`
        locked ──storeTrailers i──▶ stored         (f4) `st.trailers = tr i`, every target `= tr i`
        stored ──closeDone i──▶ signalled          (f5) `close(doneSignal)`
        signalled ──unlockMeta i──▶ unlocked       (f5') deferred `metaMu.Unlock()`
        unlocked ──recvClose i──▶ rclosed          (f6) deferred `receiver.close()`
        rclosed ──cancelCtx i──▶ retTrue           (f7) deferred `st.cancel()`, returns true

  * one READER `R` (the application goroutine in `RecvMsg`; the receiver's queue is empty — all
    messages have been consumed):

        idle ──recvStart──▶ got done | parked      receiver closed: returns the terminal result
                                                    (`st.done`) at once; else parks in `dequeue`
        parked ──recvWake [receiver closed]──▶ got done
        got _ : `readTrailer`     the non-blocking `Trailer()`: `doneSignal` closed → `some trailers`,
                                  else `none` (nil)                       — once, recorded in `rTrailer`
                `readTarget t`    reads the `grpc.Trailer` call-option target `t`
                                                                          — once, recorded in `rTarget`

    The terminal result is recorded RAW: `got r` with `r : Option Err` the content of `done`
    (`none` would be the nil pointer).

  * one OBSERVER `O` that never calls `RecvMsg`: `peekTrailer` (= `Trailer()`) at any time, at most
    `budget` times; every result is appended to the log `peeks` (chronological).

  `order : Bool`: `true` = the order above (current code).  `false` = the OLD order, which exists
  only for the counter-example (defect D4): the receiver is closed right after `remove`, before
  `lockMeta`:

        removed ──recvClose i──▶ released ──lockMeta i──▶ locked … unlocked ──cancelCtx i──▶ retTrue

  `err`, `tr : Nat → _` assign the arguments of `finishStream` to the finishers.  No ghost state:
  "the winner" is read off the program counters (`FPc.hasWon`).

  Not modelled: `gotHeaders` / `gotHeadersSignal` (same critical section as f4/f5, irrelevant to
  the trailers); messages still queued in the receiver; a reader that is itself a finisher
  (`RecvMsg` on a protocol error calls `finishStream` and then behaves like `F i` followed by `R`).
-/
namespace TunnelModel.Publish

/-- `metadata.MD`; `none` = nil -/
abbrev MD := Option (List (String × String))

/-- the error handed to `finishStream` (a tag: 0 = nil, i.e. `io.EOF` for the reader) -/
abbrev Err := Nat

/-- program counter of a finisher -/
inductive FPc where
  | start
  | won                       -- won the CAS: `done` holds its error
  | removed                   -- stream removed from the channel's table
  | released                  -- OLD order only: receiver closed BEFORE the trailers are stored
  | locked                    -- holds `metaMu`
  | stored                    -- trailers and targets written
  | signalled                 -- `doneSignal` closed
  | unlocked                  -- `metaMu` released
  | rclosed                   -- receiver closed (current order)
  | retTrue                   -- context cancelled, returned true
  | retFalse                  -- lost the CAS, returned false
  deriving DecidableEq, Repr

/-- the finisher won the CAS (it is on its way to `return true`) -/
def FPc.hasWon : FPc → Bool
  | .start | .retFalse => false
  | _ => true

/-- the finisher has returned -/
def FPc.returned : FPc → Bool
  | .retTrue | .retFalse => true
  | _ => false

/-- between `metaMu.Lock()` and `metaMu.Unlock()` -/
def FPc.holds : FPc → Bool
  | .locked | .stored | .signalled => true
  | _ => false

/-- `removeStream` has run -/
def FPc.pastRemove : FPc → Bool
  | .start | .won | .retFalse => false
  | _ => true

/-- the trailers and the targets have been written -/
def FPc.pastStore : FPc → Bool
  | .stored | .signalled | .unlocked | .rclosed | .retTrue => true
  | _ => false

/-- `doneSignal` has been closed -/
def FPc.pastSignal : FPc → Bool
  | .signalled | .unlocked | .rclosed | .retTrue => true
  | _ => false

/-- the receiver has been closed (current order) -/
def FPc.pastRClose : FPc → Bool
  | .rclosed | .retTrue => true
  | _ => false

/-- the stream context has been cancelled -/
def FPc.pastCancel : FPc → Bool
  | .retTrue => true
  | _ => false

/-- program counter of the reader -/
inductive RPc where
  | idle
  | parked                    -- blocked in `receiver.dequeue()`
  | got (r : Option Err)      -- `RecvMsg` returned the terminal result: the content of `done`
  deriving DecidableEq, Repr

structure St where
  fpcs : List FPc             -- indexed by finisher id
  done : Option Err           -- `st.done` (`none` = nil: unset)
  inTable : Bool              -- the stream is in the channel's table
  metaMu : Option Nat         -- finisher holding `metaMu`
  trailers : MD               -- `st.trailers`
  targets : List MD           -- `*tlrs` for `tlrs ∈ st.trailersTargets`
  doneSig : Bool              -- `doneSignal` is closed
  recvClosed : Bool           -- the receiver is closed
  ctxDone : Bool              -- the stream context is cancelled
  rpc : RPc                   -- the reader
  rTrailer : Option (Option MD)   -- what the reader's `Trailer()` returned (`some none` = nil because not done)
  rTarget : Option MD         -- what the reader found in the call-option target
  peeks : List (Option MD)    -- the observer's `Trailer()` results, chronological
  budget : Nat                -- peeks the observer may still make
  deriving DecidableEq, Repr

/-- `n` finishers, `k` call-option targets, an observer that peeks at most `p` times -/
def init (n k p : Nat) : St :=
  { fpcs := List.replicate n .start, done := none, inTable := true, metaMu := none,
    trailers := none, targets := List.replicate k none, doneSig := false, recvClosed := false,
    ctxDone := false, rpc := .idle, rTrailer := none, rTarget := none, peeks := [], budget := p }

/-- `Trailer()`: non-blocking — nil unless `doneSignal` is closed -/
def St.trailerCall (s : St) : Option MD := if s.doneSig then some s.trailers else none

inductive Act where
  | cas (i : Nat)
  | remove (i : Nat)
  | lockMeta (i : Nat)
  | storeTrailers (i : Nat)
  | closeDone (i : Nat)
  | unlockMeta (i : Nat)
  | recvClose (i : Nat)
  | cancelCtx (i : Nat)
  | recvStart
  | recvWake
  | readTrailer
  | readTarget (t : Nat)
  | peekTrailer
  deriving DecidableEq, Repr

/-- the finisher an action belongs to -/
def Act.fin : Act → Option Nat
  | .cas i | .remove i | .lockMeta i | .storeTrailers i | .closeDone i | .unlockMeta i
  | .recvClose i | .cancelCtx i => some i
  | _ => none

/-- `none` = the action is not enabled -/
def step (order : Bool) (err : Nat → Err) (tr : Nat → MD) (s : St) : Act → Option St
  | .cas i =>
    match s.fpcs[i]? with
    | some .start =>
      match s.done with
      | none => some { s with done := some (err i), fpcs := s.fpcs.set i .won }
      | some _ => some { s with fpcs := s.fpcs.set i .retFalse }
    | _ => none
  | .remove i =>
    match s.fpcs[i]? with
    | some .won => some { s with inTable := false, fpcs := s.fpcs.set i .removed }
    | _ => none
  | .lockMeta i =>
    match s.fpcs[i]? with
    | some .removed =>
      if order = true ∧ s.metaMu = none then some { s with metaMu := some i, fpcs := s.fpcs.set i .locked }
      else none
    | some .released =>
      if order = false ∧ s.metaMu = none then some { s with metaMu := some i, fpcs := s.fpcs.set i .locked }
      else none
    | _ => none
  | .storeTrailers i =>
    match s.fpcs[i]? with
    | some .locked =>
      some { s with trailers := tr i, targets := List.replicate s.targets.length (tr i),
                    fpcs := s.fpcs.set i .stored }
    | _ => none
  | .closeDone i =>
    match s.fpcs[i]? with
    | some .stored => some { s with doneSig := true, fpcs := s.fpcs.set i .signalled }
    | _ => none
  | .unlockMeta i =>
    match s.fpcs[i]? with
    | some .signalled => some { s with metaMu := none, fpcs := s.fpcs.set i .unlocked }
    | _ => none
  | .recvClose i =>
    match s.fpcs[i]? with
    | some .removed =>
      if order = false then some { s with recvClosed := true, fpcs := s.fpcs.set i .released } else none
    | some .unlocked =>
      if order = true then some { s with recvClosed := true, fpcs := s.fpcs.set i .rclosed } else none
    | _ => none
  | .cancelCtx i =>
    match s.fpcs[i]? with
    | some .rclosed =>
      if order = true then some { s with ctxDone := true, fpcs := s.fpcs.set i .retTrue } else none
    | some .unlocked =>
      if order = false then some { s with ctxDone := true, fpcs := s.fpcs.set i .retTrue } else none
    | _ => none
  | .recvStart =>
    match s.rpc with
    | .idle => some { s with rpc := if s.recvClosed then .got s.done else .parked }
    | _ => none
  | .recvWake =>
    match s.rpc with
    | .parked => if s.recvClosed then some { s with rpc := .got s.done } else none
    | _ => none
  | .readTrailer =>
    match s.rpc, s.rTrailer with
    | .got _, none => some { s with rTrailer := some s.trailerCall }
    | _, _ => none
  | .readTarget t =>
    match s.rpc, s.rTarget, s.targets[t]? with
    | .got _, none, some v => some { s with rTarget := some v }
    | _, _, _ => none
  | .peekTrailer =>
    match s.budget with
    | b + 1 => some { s with budget := b, peeks := s.peeks ++ [s.trailerCall] }
    | 0 => none

def run (order : Bool) (err : Nat → Err) (tr : Nat → MD) (s : St) : List Act → Option St
  | [] => some s
  | a :: as => match step order err tr s a with
    | some s' => run order err tr s' as
    | none => none

/-! ### Observations -/

/-- the next action of finisher `i` at program counter `pc` (`none`: it has returned) -/
def nextAct (order : Bool) (i : Nat) : FPc → Option Act
  | .start => some (.cas i)
  | .won => some (.remove i)
  | .removed => some (if order then .lockMeta i else .recvClose i)
  | .released => some (.lockMeta i)
  | .locked => some (.storeTrailers i)
  | .stored => some (.closeDone i)
  | .signalled => some (.unlockMeta i)
  | .unlocked => some (if order then .recvClose i else .cancelCtx i)
  | .rclosed => some (.cancelCtx i)
  | .retTrue | .retFalse => none

/-- number of finishers that have returned `true` -/
def nTrue : List FPc → Nat
  | [] => 0
  | x :: r => (if x = .retTrue then 1 else 0) + nTrue r

/-! ### Termination measure: actions still to come -/

def FPc.rank : FPc → Nat
  | .start => 9
  | .won => 8
  | .removed => 7
  | .released => 6
  | .locked => 5
  | .stored => 4
  | .signalled => 3
  | .unlocked => 2
  | .rclosed => 1
  | .retTrue | .retFalse => 0

def totalF : List FPc → Nat
  | [] => 0
  | x :: r => x.rank + totalF r

def RPc.rank : RPc → Nat
  | .idle => 2
  | .parked => 1
  | .got _ => 0

def remaining (s : St) : Nat :=
  totalF s.fpcs + s.rpc.rank + (if s.rTrailer.isNone then 1 else 0) + (if s.rTarget.isNone then 1 else 0)
    + s.budget

end TunnelModel.Publish
