/-
  L-atomic model of reverse-tunnel REGISTRATION under concurrency
  (handler.go: `openReverseTunnel`, `unregister`, `reverseChannelsForKey`).

  `n` tunnels `t = 0 .. n-1`; tunnel `t` has affinity key `keys[t]`.  For each
  tunnel there are two goroutines and one external event:

  * the registration goroutine `G t` (the body of `openReverseTunnel`)

        start ──addGlobal──▶ addedGlobal ──getPool──▶ gotPool p ──addKey──▶ addedKey p
              (1) s.reverse.add          (2) lookup-or-create     (3) rc.add      = parked at (4) `<-ch.Done()`
        addedKey p ──[closed t] remKey──▶ removedKey ──remGlobal──▶ done
                    (5) deferred rc.remove           (6) deferred s.reverse.remove

    `G t` does not look at the channel before it is parked; it leaves the parked
    state only once the channel is closed.

  * `close t`: the channel closes — at ANY time (also before `addGlobal`: a
    tunnel that is dead on arrival), exactly once.

  * the goroutine `U t` that runs `unregister` after the close

        idle ──uRemGlobal──▶ gotKey k ──uLookup──▶ gotPool p ──uRemKey──▶ finished
             (u1) found: remembers the key     (u2) found a pool      (u3)
             (u1) not found ───────────────────────────────────────────▶ finished
                                       (u2) `rc == nil` ───────────────▶ finished

  One action = one critical section of the Go code (`reverseChannels.mu` for
  `add` / `remove`, `TunnelServiceHandler.mu` for the map lookups).

  A pool (`*reverseChannels`) is an object with identity: `pools` is the heap of
  pool objects, a pool id is an index into it, `byKey` is `s.reverseByKey`
  (association list, the FIRST entry for a key is the one the map holds, so
  `(k, p) :: byKey` is "store / overwrite").  Pools are never deleted.

  `remove` is the Go loop: it deletes the FIRST entry for the tunnel
  (`removeFirst`, `List.erase`); that this removes every entry is a theorem
  (no tunnel is ever twice in a pool), not an assumption.

  Two FAULTY variants, switched on by parameters of `step`, exist only for the
  counter-examples:

  * `guarded = false`: `reverseChannelsForKey` as a double-checked lookup whose
    second half does not re-check — `peekPool t` reads the map (found → `gotPool
    p`, else → `missed`), `createPool t` (from `missed`) creates a NEW pool and
    overwrites the map entry;
  * `singleUnregister = true`: the two deferred removes (5), (6) replaced by one
    call with the semantics of `unregister`: `sRemGlobal t` removes from the
    global pool and, ONLY IF FOUND, goes on to `sRemKey t`.  (It reuses the pool
    pointer `G t` holds instead of looking it up again; irrelevant for the
    counter-example.)
-/
namespace TunnelModel.RegAtomic

/-- program counter of the registration goroutine -/
inductive GPc where
  | start
  | addedGlobal
  | missed                    -- FAULTY (`guarded = false`) only: peeked, found no pool
  | gotPool (p : Nat)
  | addedKey (p : Nat)        -- parked at `<-ch.Done()`
  | removedKey
  | removedGlobal (p : Nat)   -- FAULTY (`singleUnregister = true`) only
  | done
  deriving DecidableEq, Repr

/-- program counter of the goroutine that runs `unregister` -/
inductive UPc where
  | idle                      -- `unregister` has not done anything yet
  | gotKey (k : Nat)          -- removed from the global pool; `k` = key of the removed entry
  | gotPool (p : Nat)         -- `s.reverseByKey[k]` was pool `p`
  | finished
  deriving DecidableEq, Repr

/-- everything that belongs to one tunnel -/
structure Tun where
  key : Nat                   -- `s.affinityKey(ch)`, never changes
  closed : Bool               -- the channel has been closed
  g : GPc
  u : UPc
  deriving DecidableEq, Repr

structure St where
  tuns : List Tun                 -- indexed by tunnel id
  global : List (Nat × Nat)       -- `s.reverse.chans`: (tunnel, key) in registration order
  byKey : List (Nat × Nat)        -- `s.reverseByKey`: (key, pool id), first entry wins
  pools : List (List Nat)         -- heap of per-key pools: pool id ↦ tunnels in registration order
  deriving DecidableEq, Repr

def init (keys : List Nat) : St :=
  { tuns := keys.map (fun k => ⟨k, false, .start, .idle⟩), global := [], byKey := [], pools := [] }

/-- value stored under `a` (first entry) -/
def assoc (a : Nat) : List (Nat × Nat) → Option Nat
  | [] => none
  | (a', b) :: r => if a' = a then some b else assoc a r

/-- the `for i := range c.chans` loop of `remove`: drop the FIRST entry for `a` -/
def removeFirst (a : Nat) : List (Nat × Nat) → List (Nat × Nat)
  | [] => []
  | (a', b) :: r => if a' = a then r else (a', b) :: removeFirst a r

/-- contents of pool `p` (a pool id that was never allocated has no contents) -/
def poolAt (pools : List (List Nat)) (p : Nat) : List Nat := (pools[p]?).getD []

/-- apply `f` to the contents of pool `p` -/
def updPool (pools : List (List Nat)) (p : Nat) (f : List Nat → List Nat) : List (List Nat) :=
  match pools[p]? with
  | some l => pools.set p (f l)
  | none => pools

inductive Act where
  | addGlobal (t : Nat)     -- (1)
  | getPool (t : Nat)       -- (2), one critical section (guarded only)
  | peekPool (t : Nat)      -- FAULTY (2a)
  | createPool (t : Nat)    -- FAULTY (2b)
  | addKey (t : Nat)        -- (3)
  | remKey (t : Nat)        -- (5), only once the channel is closed
  | remGlobal (t : Nat)     -- (6)
  | sRemGlobal (t : Nat)    -- FAULTY single unregister, first half
  | sRemKey (t : Nat)       -- FAULTY single unregister, second half
  | close (t : Nat)         -- the channel closes
  | uRemGlobal (t : Nat)    -- (u1)
  | uLookup (t : Nat)       -- (u2)
  | uRemKey (t : Nat)       -- (u3)
  deriving DecidableEq, Repr

/-- the tunnel an action belongs to -/
def Act.tun : Act → Nat
  | .addGlobal t | .getPool t | .peekPool t | .createPool t | .addKey t | .remKey t | .remGlobal t
  | .sRemGlobal t | .sRemKey t | .close t | .uRemGlobal t | .uLookup t | .uRemKey t => t

/-- `none` = the action is not enabled -/
def step (guarded singleUnregister : Bool) (s : St) : Act → Option St
  | .addGlobal t =>
    match s.tuns[t]? with
    | some ⟨k, c, .start, u⟩ =>
      some { s with global := s.global ++ [(t, k)], tuns := s.tuns.set t ⟨k, c, .addedGlobal, u⟩ }
    | _ => none
  | .getPool t =>
    if guarded then
      match s.tuns[t]? with
      | some ⟨k, c, .addedGlobal, u⟩ =>
        match assoc k s.byKey with
        | some p => some { s with tuns := s.tuns.set t ⟨k, c, .gotPool p, u⟩ }
        | none => some { s with byKey := (k, s.pools.length) :: s.byKey, pools := s.pools ++ [[]],
                                tuns := s.tuns.set t ⟨k, c, .gotPool s.pools.length, u⟩ }
      | _ => none
    else none
  | .peekPool t =>
    if guarded then none else
      match s.tuns[t]? with
      | some ⟨k, c, .addedGlobal, u⟩ =>
        match assoc k s.byKey with
        | some p => some { s with tuns := s.tuns.set t ⟨k, c, .gotPool p, u⟩ }
        | none => some { s with tuns := s.tuns.set t ⟨k, c, .missed, u⟩ }
      | _ => none
  | .createPool t =>
    if guarded then none else
      match s.tuns[t]? with
      | some ⟨k, c, .missed, u⟩ =>
        some { s with byKey := (k, s.pools.length) :: s.byKey, pools := s.pools ++ [[]],
                      tuns := s.tuns.set t ⟨k, c, .gotPool s.pools.length, u⟩ }
      | _ => none
  | .addKey t =>
    match s.tuns[t]? with
    | some ⟨k, c, .gotPool p, u⟩ =>
      some { s with pools := updPool s.pools p (· ++ [t]), tuns := s.tuns.set t ⟨k, c, .addedKey p, u⟩ }
    | _ => none
  | .remKey t =>
    if singleUnregister then none else
      match s.tuns[t]? with
      | some ⟨k, true, .addedKey p, u⟩ =>
        some { s with pools := updPool s.pools p (·.erase t), tuns := s.tuns.set t ⟨k, true, .removedKey, u⟩ }
      | _ => none
  | .remGlobal t =>
    if singleUnregister then none else
      match s.tuns[t]? with
      | some ⟨k, c, .removedKey, u⟩ =>
        some { s with global := removeFirst t s.global, tuns := s.tuns.set t ⟨k, c, .done, u⟩ }
      | _ => none
  | .sRemGlobal t =>
    if singleUnregister then
      match s.tuns[t]? with
      | some ⟨k, true, .addedKey p, u⟩ =>
        match assoc t s.global with
        | some _ => some { s with global := removeFirst t s.global, tuns := s.tuns.set t ⟨k, true, .removedGlobal p, u⟩ }
        | none => some { s with tuns := s.tuns.set t ⟨k, true, .done, u⟩ }
      | _ => none
    else none
  | .sRemKey t =>
    if singleUnregister then
      match s.tuns[t]? with
      | some ⟨k, c, .removedGlobal p, u⟩ =>
        some { s with pools := updPool s.pools p (·.erase t), tuns := s.tuns.set t ⟨k, c, .done, u⟩ }
      | _ => none
    else none
  | .close t =>
    match s.tuns[t]? with
    | some ⟨k, false, g, u⟩ => some { s with tuns := s.tuns.set t ⟨k, true, g, u⟩ }
    | _ => none
  | .uRemGlobal t =>
    match s.tuns[t]? with
    | some ⟨k, true, g, .idle⟩ =>
      match assoc t s.global with
      | some k' => some { s with global := removeFirst t s.global, tuns := s.tuns.set t ⟨k, true, g, .gotKey k'⟩ }
      | none => some { s with tuns := s.tuns.set t ⟨k, true, g, .finished⟩ }
    | _ => none
  | .uLookup t =>
    match s.tuns[t]? with
    | some ⟨k, c, g, .gotKey k'⟩ =>
      match assoc k' s.byKey with
      | some p => some { s with tuns := s.tuns.set t ⟨k, c, g, .gotPool p⟩ }
      | none => some { s with tuns := s.tuns.set t ⟨k, c, g, .finished⟩ }
    | _ => none
  | .uRemKey t =>
    match s.tuns[t]? with
    | some ⟨k, c, g, .gotPool p⟩ =>
      some { s with pools := updPool s.pools p (·.erase t), tuns := s.tuns.set t ⟨k, c, g, .finished⟩ }
    | _ => none

def run (guarded singleUnregister : Bool) (s : St) : List Act → Option St
  | [] => some s
  | a :: as => match step guarded singleUnregister s a with
    | some s' => run guarded singleUnregister s' as
    | none => none

/-! ### Observations -/

/-- `G` is parked at `<-ch.Done()` and the channel is open: the tunnel is open
    and fully registered -/
def Tun.isOpen (x : Tun) : Bool :=
  match x.g with
  | .addedKey _ => !x.closed
  | _ => false

/-- `G` waits for something external.  `strict = false` also counts `start`
    (the tunnel has not been opened yet: the schedule decides which tunnels
    exist); `strict = true` does not (`G` in `start` can move by itself). -/
def Tun.gResting (strict : Bool) (x : Tun) : Bool :=
  match x.g with
  | .start => !strict
  | .done => true
  | .addedKey _ => !x.closed
  | _ => false

/-- `U` has not started (channel open) or has finished -/
def Tun.uResting (x : Tun) : Bool := !x.closed || x.u == .finished

def Tun.resting (strict : Bool) (x : Tun) : Bool := x.gResting strict && x.uResting

/-- every goroutine waits for something external -/
def resting (strict : Bool) (s : St) : Bool := s.tuns.all (Tun.resting strict)

/-- everything is over: all channels closed, all goroutines have returned -/
def Tun.over (x : Tun) : Bool := x.closed && x.g == .done && x.u == .finished

def allOver (s : St) : Bool := s.tuns.all Tun.over

/-- tunnels in the global pool -/
def globalIds (s : St) : List Nat := s.global.map (·.1)

/-- the pool registered under key `k` (`s.reverseByKey[k]`), empty if there is none -/
def keyPool (s : St) (k : Nat) : List Nat :=
  match assoc k s.byKey with
  | some p => poolAt s.pools p
  | none => []

/-! ### Termination measure: actions a tunnel can still perform -/

def GPc.rank : GPc → Nat
  | .start => 6
  | .addedGlobal => 5
  | .missed => 4
  | .gotPool _ => 3
  | .addedKey _ => 2
  | .removedKey => 1
  | .removedGlobal _ => 1
  | .done => 0

def UPc.rank : UPc → Nat
  | .idle => 3
  | .gotKey _ => 2
  | .gotPool _ => 1
  | .finished => 0

/-- actions of `G`, the `close`, actions of `U` -/
def Tun.rank (x : Tun) : Nat := x.g.rank + (if x.closed then 0 else 1) + x.u.rank

def total : List Tun → Nat
  | [] => 0
  | x :: r => x.rank + total r

def remaining (s : St) : Nat := total s.tuns

/-- rank of tunnel `t` (0 if there is no such tunnel) -/
def rankAt (s : St) (t : Nat) : Nat :=
  match s.tuns[t]? with
  | some x => x.rank
  | none => 0

end TunnelModel.RegAtomic
