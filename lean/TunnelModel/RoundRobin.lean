/-
  `reverseChannels` (handler.go): the list of registered reverse tunnels with
  its round-robin cursor and readiness latch.
-/
namespace TunnelModel.RoundRobin

/-- members are identified by `Nat`, keys by `Nat` -/
structure Pool where
  chans : List (Nat × Nat)   -- (tunnel, key) in registration order
  idx : Nat
  latchClosed : Bool         -- `avail` is closed (waiters pass)
  deriving DecidableEq, Repr

def Pool.empty : Pool := { chans := [], idx := 0, latchClosed := false }

def Pool.add (p : Pool) (t k : Nat) : Pool :=
  let chans := p.chans ++ [(t, k)]
  { p with chans := chans, latchClosed := if chans.length = 1 then true else p.latchClosed }

def removeFirst (t : Nat) : List (Nat × Nat) → Option (Nat × List (Nat × Nat))
  | [] => none
  | (t', k) :: rest =>
    if t' = t then some (k, rest)
    else match removeFirst t rest with
      | none => none
      | some (k', rest') => some (k', (t', k) :: rest')

def Pool.remove (p : Pool) (t : Nat) : Pool × Option Nat :=
  match removeFirst t p.chans with
  | none => (p, none)
  | some (k, rest) =>
    ({ p with chans := rest, latchClosed := if rest.length = 0 then false else p.latchClosed }, some k)

/-- `pick`: advance the cursor, wrap to 0 when it runs off the end -/
def Pool.pick (p : Pool) : Pool × Option Nat :=
  if p.chans.length = 0 then (p, none)
  else
    let i := if p.idx + 1 ≥ p.chans.length then 0 else p.idx + 1
    ({ p with idx := i }, (p.chans[i]?).map (·.1))

def Pool.ready (p : Pool) : Bool := p.chans.length > 0

def Pool.all (p : Pool) : List Nat := p.chans.map (·.1)

/-- `n` consecutive picks -/
def Pool.picks : Pool → Nat → Pool × List (Option Nat)
  | p, 0 => (p, [])
  | p, n + 1 =>
    let (p', r) := p.pick
    let (p'', rs) := p'.picks n
    (p'', r :: rs)

end TunnelModel.RoundRobin
