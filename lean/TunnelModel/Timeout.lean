/-
  Model of `timeoutFromHeaders` (tunnel_server.go) and the gRPC wire
  specification of the `grpc-timeout` header it is judged against (C18).

  Strings are lists of bytes (`Nat`, any value; ASCII digits are 48..57).
  Durations are nanoseconds as `Nat`; `maxDur = 2^63-1` is Go's
  `math.MaxInt64` (the largest `time.Duration`).
-/
namespace TunnelModel.Timeout

def maxDur : Nat := 9223372036854775807

/-- nanoseconds per unit character, `none` for an unknown unit
    (the `switch` at the end of `timeoutFromHeaders`). -/
def unitNs (c : Nat) : Option Nat :=
  if c = 72 then some 3600000000000        -- 'H'
  else if c = 77 then some 60000000000     -- 'M'
  else if c = 83 then some 1000000000      -- 'S'
  else if c = 109 then some 1000000        -- 'm'
  else if c = 117 then some 1000           -- 'u'
  else if c = 110 then some 1              -- 'n'
  else none

def isDigit (c : Nat) : Bool := 48 ≤ c && c ≤ 57

/-- the digit loop of the code: `timeout = timeout*10 + (ch-'0')`, rejecting
    any non-digit. -/
def digitsVal : Nat → List Nat → Option Nat
  | acc, [] => some acc
  | acc, c :: cs => if isDigit c then digitsVal (acc * 10 + (c - 48)) cs else none

/-- `timeoutFromHeaders` applied to the list of values of the `grpc-timeout`
    key (in order of appearance). `none` = `(0, false)`: no deadline. -/
def parse (vals : List (List Nat)) : Option Nat :=
  match vals.getLast? with
  | none => none
  | some s =>
    if s.length < 2 ∨ s.length > 9 then none
    else
      match digitsVal 0 s.dropLast, s.getLast? with
      | some t, some u =>
        match unitNs u with
        | none => none
        | some ns => if t > maxDur / ns then some maxDur else some (t * ns)
      | _, _ => none

/-! ### Specification (gRPC over HTTP2: `Timeout → TimeoutValue TimeoutUnit`,
    `TimeoutValue` = positive integer as ASCII string of at most 8 digits,
    `TimeoutUnit` ∈ H M S m u n), saturating at the representable maximum. -/

/-- value of a digit string, most significant first -/
def natOfDigits (ds : List Nat) : Nat := ds.foldl (fun a c => a * 10 + (c - 48)) 0

/-- a header value is well-formed iff it is 1..8 ASCII digits followed by a unit -/
def wellFormed (s : List Nat) : Bool :=
  match s.getLast? with
  | none => false
  | some u => (unitNs u).isSome && 1 ≤ s.dropLast.length && s.dropLast.length ≤ 8
              && s.dropLast.all isDigit

/-- the duration a well-formed value denotes, saturated -/
def specValue (s : List Nat) : Nat :=
  match s.getLast? with
  | none => 0
  | some u => min (natOfDigits s.dropLast * (unitNs u).getD 0) maxDur

/-- the specification: the last header value decides; malformed ⇒ no deadline -/
def spec (vals : List (List Nat)) : Option Nat :=
  match vals.getLast? with
  | none => none
  | some s => if wellFormed s then some (specValue s) else none

end TunnelModel.Timeout
