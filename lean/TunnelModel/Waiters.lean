/-
  `reverseChannels` (handler.go) once more, this time with the IDENTITY of the
  `avail` channel and the goroutines parked in `waitForReady`.

  `TunnelModel.RoundRobin.Pool` abstracts the latch to one Boolean
  (`latchClosed`).  That is enough for "is the pool ready" but it cannot say
  what happens to a goroutine that captured `avail` BEFORE a `remove` replaced
  it: such a goroutine waits on the channel value it read under the lock, not on
  the field.  Here every channel ever stored in `c.avail` is a *generation*:

  * `gen`          the generation currently stored in `c.avail`
                   (`make(chan struct{})` = `gen + 1`, always fresh);
  * `closedGens`   the generations that have been `close`d (a closed channel
                   stays closed: nothing is ever taken out of this list);
  * `waiters`      `(w, g)`: goroutine `w` executed the critical section of
                   `waitForReady` when `c.avail` was generation `g` and selects on
                   THAT channel.  The list is a history: entries are never dropped
                   (a waiter that has returned simply is not `parked`), which is
                   the strongest setting for every "no waiter is parked" claim.

  One operation per critical section of the Go code (`c.mu` held throughout, so
  they are atomic): `add`, `remove`, `wait`.  `removeBuggy` is the seeded faulty
  variant of `remove`.  No legality assumption on runs: tunnel ids may repeat,
  removes may be redundant, waiter ids may repeat.
-/
namespace TunnelModel.Waiters

structure State where
  chans : List Nat              -- tunnel ids in registration order (`c.chans`)
  gen : Nat                     -- identity of the channel in `c.avail`
  closedGens : List Nat         -- generations that have been closed
  waiters : List (Nat × Nat)    -- (waiter id, generation it captured)
  deriving DecidableEq, Repr

/-- `reverseChannels{avail: make(chan struct{})}`: generation 0, open -/
def State.init : State := { chans := [], gen := 0, closedGens := [], waiters := [] }

/-- the `for i := range c.chans` loop of `remove`: `none` = fell through (not
    found), `some rest` = the list without the FIRST entry equal to `t` -/
def removeFirst (t : Nat) : List Nat → Option (List Nat)
  | [] => none
  | t' :: rest =>
    if t' = t then some rest
    else match removeFirst t rest with
      | none => none
      | some rest' => some (t' :: rest')

/-- `add`: append; `if len(c.chans) == 1 { close(c.avail) }`.  (Closing a closed
    channel panics in Go; the model just records the generation again.
    `Proofs.Waiters.add_closes_open_channel` shows it never happens.) -/
def State.add (s : State) (t : Nat) : State :=
  let chans := s.chans ++ [t]
  { s with chans := chans,
           closedGens := if chans.length = 1 then s.gen :: s.closedGens else s.closedGens }

/-- `remove`: not found → nothing changes; found → drop the entry and, only when
    THIS removal empties the list, `c.avail = make(chan struct{})` -/
def State.remove (s : State) (t : Nat) : State :=
  match removeFirst t s.chans with
  | none => s
  | some rest => { s with chans := rest, gen := if rest.length = 0 then s.gen + 1 else s.gen }

/-- seeded fault: the emptiness test moved AFTER the loop, so `avail` is replaced
    on every call that leaves the list empty, found or not -/
def State.removeBuggy (s : State) (t : Nat) : State :=
  let rest := (removeFirst t s.chans).getD s.chans
  { s with chans := rest, gen := if rest.length = 0 then s.gen + 1 else s.gen }

/-- critical section of `waitForReady`: `avail := c.avail` -/
def State.wait (s : State) (w : Nat) : State :=
  { s with waiters := s.waiters ++ [(w, s.gen)] }

/-- `len(c.chans) > 0` -/
def State.ready (s : State) : Prop := s.chans ≠ []

instance (s : State) : Decidable s.ready := by unfold State.ready; infer_instance

/-- a `select` on generation `g` blocks (ctx aside) iff `g` has not been closed -/
def State.blocked (s : State) (g : Nat) : Prop := g ∉ s.closedGens

instance (s : State) (g : Nat) : Decidable (s.blocked g) := by unfold State.blocked; infer_instance

/-- some goroutine with id `w` is parked: its captured generation is not closed -/
def State.parked (s : State) (w : Nat) : Prop :=
  ∃ p ∈ s.waiters, p.1 = w ∧ s.blocked p.2

instance (s : State) (w : Nat) : Decidable (s.parked w) := by unfold State.parked; infer_instance

/-- nobody is parked -/
def State.noneParked (s : State) : Prop := ∀ p ∈ s.waiters, ¬ s.blocked p.2

instance (s : State) : Decidable s.noneParked := by unfold State.noneParked; infer_instance

/-- a goroutine entering `waitForReady` now returns `nil` at once: the channel it
    reads from `c.avail` is closed -/
def State.waitPasses (s : State) : Prop := ¬ s.blocked s.gen

instance (s : State) : Decidable s.waitPasses := by unfold State.waitPasses; infer_instance

inductive Op where
  | add (t : Nat)
  | remove (t : Nat)
  | wait (w : Nat)
  deriving DecidableEq, Repr

def step (s : State) : Op → State
  | .add t => s.add t
  | .remove t => s.remove t
  | .wait w => s.wait w

/-- the same with the seeded fault in `remove` -/
def stepBuggy (s : State) : Op → State
  | .add t => s.add t
  | .remove t => s.removeBuggy t
  | .wait w => s.wait w

def runFrom (s : State) (ops : List Op) : State := ops.foldl step s
def run (ops : List Op) : State := runFrom State.init ops

def runBuggyFrom (s : State) (ops : List Op) : State := ops.foldl stepBuggy s
def runBuggy (ops : List Op) : State := runBuggyFrom State.init ops

end TunnelModel.Waiters
