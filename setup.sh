#!/bin/sh
# Run once after a fresh restore, offline: builds the Lean development (models,
# proofs, driver) and pre-compiles the Go harness so that checks only rebuild
# incrementally.  Everything comes from files on disk.
set -e
cd "$(dirname "$0")"
export GOFLAGS=-mod=mod GOPROXY=off GOSUMDB=off GOTOOLCHAIN=local GOCACHE="$PWD/.cache/go-build"
mkdir -p .work/bin evidence replays
(cd harness && go1.26.8 build -o ../.work/bin/extract ./extract)
./.work/bin/extract /repo lean/TunnelModel/Generated/Facts.lean lean/TunnelModel/Generated/Locks.lean
(cd lean && lake build)
(cd harness && go1.26.8 test -c -tags verif -o ../.work/bin/harness.test .)
# race-instrumented harness (C02 / C15 stress); warms the build cache so that checks only relink
(cd harness && go1.26.8 test -race -c -tags verif -o ../.work/bin/harness.race.test .)
echo setup-ok
