#!/bin/bash
# usage: confirm_mut.sh <worktree>  -- confirm a seeded change: suite passes with it, demo fails with it and passes without it
d=$1
cd "$d" || exit 2
export GOPROXY=off
r1=$(go test -vet=off -count=1 -run TestMutDemo . 2>&1 | tail -1)
r2=$(go test -vet=off -count=1 -skip TestMutDemo . 2>&1 | tail -1)
git apply -R patch.diff || { echo "cannot revert"; exit 2; }
r3=$(go test -vet=off -count=1 -run TestMutDemo . 2>&1 | tail -1)
git apply patch.diff
echo "$d | demo with change: $r1 | suite with change: $r2 | demo without change: $r3"
