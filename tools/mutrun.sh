#!/bin/bash
# usage: mutrun.sh <patch.diff> <tier> <prop>...   -- apply a seeded change to /repo, run the checks, undo it
set -u
patch=$1; tier=$2; shift 2
cd /verif
if ! git -C /repo diff --quiet; then echo "repo dirty"; exit 2; fi
git -C /repo apply "$patch" || { echo "patch does not apply"; exit 2; }
trap 'git -C /repo checkout -- .' EXIT
for p in "$@"; do
  out=$(./check "$p" --tier "$tier" 2>&1); rc=$?
  echo "== $p rc=$rc"
  echo "$out" | grep -E "^(VIOLATION|KNOWN-FINDING|OK|BROKEN|ERROR)" | head -5
done
