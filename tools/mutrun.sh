#!/bin/bash
# usage: mutrun.sh <patch.diff> <tier> <prop>...   -- apply a seeded change to /repo, run the checks, undo it
set -u
patch=$(readlink -f "$1"); tier=$2; shift 2
cd /verif
if ! git -C /repo diff --quiet; then echo "repo dirty"; exit 2; fi
git -C /repo apply "$patch" || { echo "patch does not apply"; exit 2; }
# undo the change and regenerate the facts from the clean tree (the generated files are rewritten by every check)
trap 'git -C /repo checkout -- .; /verif/.work/bin/extract /repo /verif/lean/TunnelModel/Generated/Facts.lean /verif/lean/TunnelModel/Generated/Locks.lean' EXIT
for p in "$@"; do
  out=$(./check "$p" --tier "$tier" 2>&1); rc=$?
  echo "== $p rc=$rc"
  echo "$out" | grep -E "^(VIOLATION|KNOWN-FINDING|OK|BROKEN|ERROR)" | head -5
done
