#!/bin/bash
# Applies every seeded change in turn to /repo, runs the quick check of its property, reverts, and records
# what the check printed in seeded/RESULTS.md (and a sample replay next to the patch).
cd /verif
out=seeded/RESULTS.md
echo "# Seeded changes against the current checks (tools/seeded_regress.sh, quick tier, seed ${VERIF_SEED:-1})" > $out
echo >> $out
echo "| seeded change | check | exit | first lines printed |" >> $out
echo "|---|---|---|---|" >> $out
for d in seeded/*/; do
  id=$(basename $d); prop=${id%%-*}
  if ! git -C /repo diff --quiet; then echo "repo dirty"; exit 2; fi
  git -C /repo apply /verif/$d/patch.diff || { echo "| $id | $prop | - | patch does not apply |" >> $out; continue; }
  t0=$(date +%s); res=$(./check $prop --tier quick 2>&1); rc=$?; t1=$(date +%s)
  git -C /repo checkout -- .
  lines=$(echo "$res" | grep -E "^(VIOLATION|OK)" | head -3 | sed 's/|/\\|/g' | tr '\n' ';' | sed 's/;/<br>/g')
  echo "| $id | $prop | $rc | $lines |" >> $out
  r=$(echo "$res" | grep -E "^VIOLATION" | grep -v "no-failing-input-found" | head -1 | sed 's/.*replay=\([^ ]*\).*/\1/')
  [ -z "$r" ] && r=$(echo "$res" | grep -E "^VIOLATION" | head -1 | sed 's/.*replay=\([^ ]*\).*/\1/')
  [ -n "$r" ] && [ -f "$r" ] && head -c 20000 "$r" > $d/replay-$prop.txt
  git ls-files --others --exclude-standard replays | xargs rm -f
done
/verif/.work/bin/extract /repo /verif/lean/TunnelModel/Generated/Facts.lean /verif/lean/TunnelModel/Generated/Locks.lean
cat $out
