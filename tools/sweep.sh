#!/bin/bash
# usage: sweep.sh <tier> [props...]  -- run checks on the current tree and summarise
tier=${1:-quick}; shift
props=${@:-C01 C02 C03 C04 C05 C06 C07 C08 C09 C10 C11 C12 C13 C14 C15 C16 C17 C18}
cd /verif
export VERIF_SHARE=/verif/.work/sweep-$$
rm -rf $VERIF_SHARE; mkdir -p $VERIF_SHARE
trap 'rm -rf $VERIF_SHARE' EXIT
for p in $props; do
  s=$(date +%s)
  out=$(./check "$p" --tier "$tier" 2>&1); rc=$?
  e=$(date +%s)
  echo "== $p rc=$rc $((e-s))s"
  echo "$out" | grep -E "^(VIOLATION|KNOWN-FINDING|OK|BROKEN|ERROR)" | cut -c1-200 | head -6
done
